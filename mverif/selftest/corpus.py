"""Sensitivity and specificity corpora (see harness.py).  One entry per line of reasoning:
the edit, the rule(s) that must fire / stay silent."""
from __future__ import annotations

from typing import List

from .harness import Variant

SCHED = "mosaik/scheduler.py"
PROG = "mosaik/progress.py"
SIMM = "mosaik/simmanager.py"
SCEN = "mosaik/scenario.py"
TT = "mosaik/tiered_time.py"
PROX = "mosaik/proxies.py"
ADAP = "mosaik/adapters.py"
IOS = "mosaik/in_or_out_set.py"
UTIL = "mosaik/util.py"
DBG = "mosaik/_debug.py"
IUTIL = "mosaik/internal_util.py"

V: List[Variant] = []


def sens(vid, rules, oid, *edits, note=""):
    V.append(Variant(vid, [tuple(e) for e in edits], "violated", rules if isinstance(rules, list) else [rules], oid, note))


def spec(vid, rules, *edits, note=""):
    V.append(Variant(vid, [tuple(e) for e in edits], "silent", rules if isinstance(rules, list) else [rules], None, note))


# ----------------------------------------------------------------------------- R1
sens("R1-passed-to-reached", "R1", "R1/O1", (SCHED, "pre_sim.progress.has_passed(next_step, shift=delay)", "pre_sim.progress.has_reached(next_step, shift=delay)"))
sens("R1-drop-shift", "R1", "R1/O1", (SCHED, "pre_sim.progress.has_passed(next_step, shift=delay)", "pre_sim.progress.has_passed(next_step)"))
sens("R1-drop-input-loop", "R1", "R1/O1", (SCHED, "        futures.append(pre_sim.progress.has_passed(next_step, shift=delay))", "        pass"))
sens("R1-o2-under-lazy", "R1", "R1/O2", (SCHED, "    for suc_sim, adapt in sim.successors_to_wait_for.items():\n        futures.append(suc_sim.progress.has_reached(next_step + adapt))\n    if lazy_stepping:\n", "    if lazy_stepping:\n        for suc_sim, adapt in sim.successors_to_wait_for.items():\n            futures.append(suc_sim.progress.has_reached(next_step + adapt))\n"))
sens("R1-o2-drop-adapt", "R1", "R1/O2", (SCHED, "    for suc_sim, adapt in sim.successors_to_wait_for.items():\n        futures.append(suc_sim.progress.has_reached(next_step + adapt))", "    for suc_sim, adapt in sim.successors_to_wait_for.items():\n        futures.append(suc_sim.progress.has_reached(next_step))"))
sens("R1-o3-wrong-table", "R1", "R1/O3", (SCHED, "        for suc_sim, adapt in sim.successors.items():", "        for suc_sim, adapt in sim.successors_to_wait_for.items():"))
sens("R1-no-await-gather", "R1", "R1/O4", (SCHED, "    await asyncio.gather(*futures)", "    asyncio.gather(*futures)"))
sens("R1-first-completed", "R1", "R1/O4", (SCHED, "    await asyncio.gather(*futures)", "    await asyncio.wait([asyncio.ensure_future(f) for f in futures], return_when='FIRST_COMPLETED')"))
sens("R1-trig-strict-lost", "R1", "R1/O5b", (PROG, "if needs_to_pass and time_at_dest > target:", "if needs_to_pass and time_at_dest >= target:"))
sens("R1-trig-reach-strict", "R1", "R1/O5b", (PROG, "if not needs_to_pass and time_at_dest >= target:", "if not needs_to_pass and time_at_dest > target:"))
sens("R1-trig-no-shift", "R1", "R1/O5b", (PROG, "time_at_dest = self.time + shift", "time_at_dest = self.time"))
sens("R1-passed-flag-false", "R1", "R1/O5a", (PROG, "return await self._add_trigger(target, shift, True)", "return await self._add_trigger(target, shift, False)"))
sens("R1-set-store-late", "R1", "R1/O5d", (PROG, "        self.time = time\n        # Use index-based", "        # Use index-based"), (PROG, "                del self._futures[index]\n", "                del self._futures[index]\n        self.time = time\n"))
sens("R1-set-forward-del", "R1", "R1/O5d", (PROG, "for index in reversed(range(0, len(self._futures))):", "for index in range(0, len(self._futures)):"))
sens("R1-set-skip-first", "R1", "R1/O5d", (PROG, "for index in reversed(range(0, len(self._futures))):", "for index in reversed(range(1, len(self._futures))):"))
sens("R1-add-trigger-suspends", "R1", "R1/O5c", (PROG, "        future: asyncio.Future[TieredTime] = asyncio.Future()\n", "        await asyncio.sleep(0)\n        future: asyncio.Future[TieredTime] = asyncio.Future()\n"))
sens("R1-add-trigger-other-future", "R1", "R1/O5c", (PROG, "        return await future", "        return await asyncio.Future()"))
sens("R1-set-remove-untriggered", "R1", "R1/O5d", (PROG, "                if not future.cancelled():\n                    future.set_result(triggered_time)\n                del self._futures[index]", "                if not future.cancelled():\n                    future.set_result(triggered_time)\n            del self._futures[index]"))

spec("R1s-comprehension", "R1", (SCHED, "    for pre_sim, delay in sim.input_delays.items():\n        # Wait for pre_sim if it hasn't progressed enough to provide\n        # the input for our current step.\n        futures.append(pre_sim.progress.has_passed(next_step, shift=delay))\n", "    futures += [p.progress.has_passed(next_step, shift=d) for p, d in sim.input_delays.items()]\n"))
spec("R1s-positional-shift", "R1", (SCHED, "pre_sim.progress.has_passed(next_step, shift=delay)", "pre_sim.progress.has_passed(next_step, delay)"))
spec("R1s-no-local", "R1", (SCHED, "pre_sim.progress.has_passed(next_step, shift=delay)", "pre_sim.progress.has_passed(sim.next_steps[0], shift=delay)"))
spec("R1s-flip-cmp", "R1", (PROG, "if needs_to_pass and time_at_dest > target:", "if needs_to_pass and target < time_at_dest:"))
spec("R1s-nested-if", "R1", (PROG, "        if needs_to_pass and time_at_dest > target:\n            return time_at_dest\n        if not needs_to_pass and time_at_dest >= target:\n            return time_at_dest\n        return None", "        if needs_to_pass:\n            if time_at_dest > target:\n                return time_at_dest\n        elif time_at_dest >= target:\n            return time_at_dest\n        return None"))
spec("R1s-rename", "R1", (SCHED, "    for suc_sim, adapt in sim.successors_to_wait_for.items():\n        futures.append(suc_sim.progress.has_reached(next_step + adapt))", "    for s2, a2 in sim.successors_to_wait_for.items():\n        futures.append(s2.progress.has_reached(next_step + a2))"))
spec("R1s-gather-list", "R1", (SCHED, "    await asyncio.gather(*futures)", "    await asyncio.gather(*[f for f in futures])"), note="identity comprehension over the accumulator")

# ----------------------------------------------------------------------------- R2
_ADV_ANC = "        pre_step = earliest_pending_step(pre_sim)\n        if pre_step is not None:\n            pre_sim_induced_progress.append(pre_step + distance)\n"
_MAX_ANC = "        anc_step = earliest_pending_step(anc_sim)\n        if anc_step is not None:\n            ancs_next_steps.append((anc_step + distance).time)\n"
sens("R2-revert-D3-adv", "R2", "R2/anc", (SCHED, _ADV_ANC, "        if pre_sim.next_steps:\n            pre_sim_induced_progress.append(pre_sim.next_steps[0] + distance)\n"))
sens("R2-revert-D3-max", "R2", "R2/anc", (SCHED, _MAX_ANC, "        if anc_sim.next_steps:\n            ancs_next_steps.append((anc_sim.next_steps[0] + distance).time)\n"))
sens("R2-helper-heap-first", "R2", "R2/anc", (SCHED, "    if sim.current_step is not None:\n        return sim.current_step\n    if sim.next_steps:\n        return sim.next_steps[0]\n    return None", "    if sim.next_steps:\n        return sim.next_steps[0]\n    if sim.current_step is not None:\n        return sim.current_step\n    return None"))
sens("R2-min-to-max", "R2", "R2/sink", (SCHED, "    new_progress = min([", "    new_progress = max(["))
sens("R2-drop-current", "R2", "R2/own", (SCHED, "        *current_step_prog,\n", ""))
sens("R2-drop-next", "R2", "R2/own", (SCHED, "        *next_step_progress,\n", ""))
sens("R2-drop-until", "R2", "R2/until", (SCHED, "        *rt_progress,\n        TieredTime(world.until) + sim.from_world_time,\n", "        *rt_progress,\n        *([TieredTime(world.until) + sim.from_world_time] if not sim.next_steps else []),\n"))
sens("R2-drop-distance", "R2", "R2/anc", (SCHED, "pre_sim_induced_progress.append(pre_step + distance)", "pre_sim_induced_progress.append(pre_step)"))
sens("R2-drop-anc", "R2", "R2/anc", (SCHED, "        *pre_sim_induced_progress,\n", ""))
sens("R2-max-no-minus1", "R2", "R2/", (SCHED, "    return min([*ancs_next_steps, *own_next_step, until + 1]) - 1", "    return min([*ancs_next_steps, *own_next_step, until])"))
sens("R2-max-until-off", "R2", "R2/until", (SCHED, "    return min([*ancs_next_steps, *own_next_step, until + 1]) - 1", "    return min([*ancs_next_steps, *own_next_step, until]) - 1"))
sens("R2-max-drop-own", "R2", "R2/own", (SCHED, "    return min([*ancs_next_steps, *own_next_step, until + 1]) - 1", "    return min([*ancs_next_steps, until + 1]) - 1"))
sens("R2-max-drop-anc", "R2", "R2/anc", (SCHED, "    return min([*ancs_next_steps, *own_next_step, until + 1]) - 1", "    return min([*own_next_step, until + 1]) - 1"))
sens("R2-rt-multiply", "R2", "R2/rt", (SCHED, "ceil(rt_passed / world.rt_factor)", "ceil(rt_passed * world.rt_factor)"))
sens("R2-anc-only-when-heap", "R2", "R2/anc", (SCHED, "        if pre_step is not None:\n            pre_sim_induced_progress.append(pre_step + distance)", "        if pre_step is not None and pre_sim.next_steps:\n            pre_sim_induced_progress.append(pre_step + distance)"))

spec("R2s-comprehension", "R2", (SCHED, "    pre_sim_induced_progress: List[TieredTime] = []\n    for pre_sim, distance in sim.triggering_ancestors.items():\n" + _ADV_ANC, "    pre_sim_induced_progress: List[TieredTime] = [\n        earliest_pending_step(p) + d\n        for p, d in sim.triggering_ancestors.items()\n        if earliest_pending_step(p) is not None\n    ]\n"))
spec("R2s-let-idiom", "R2", (SCHED, "    pre_sim_induced_progress: List[TieredTime] = []\n    for pre_sim, distance in sim.triggering_ancestors.items():\n" + _ADV_ANC, "    pre_sim_induced_progress: List[TieredTime] = [\n        st + d\n        for p, d in sim.triggering_ancestors.items()\n        for st in [earliest_pending_step(p)]\n        if st is not None\n    ]\n"))
spec("R2s-inline-helper", "R2", (SCHED, "        pre_step = earliest_pending_step(pre_sim)\n        if pre_step is not None:\n            pre_sim_induced_progress", "        pre_step = pre_sim.current_step if pre_sim.current_step is not None else (pre_sim.next_steps[0] if pre_sim.next_steps else None)\n        if pre_step is not None:\n            pre_sim_induced_progress"))
spec("R2s-helper-min", "R2", (SCHED, "    if sim.current_step is not None:\n        return sim.current_step\n    if sim.next_steps:\n        return sim.next_steps[0]\n    return None", "    if sim.current_step is not None:\n        return min(sim.current_step, sim.next_steps[0]) if sim.next_steps else sim.current_step\n    if sim.next_steps:\n        return sim.next_steps[0]\n    return None"))
spec("R2s-max-distributed", "R2", (SCHED, "    return min([*ancs_next_steps, *own_next_step, until + 1]) - 1", "    return min([*[a - 1 for a in ancs_next_steps], *[o - 1 for o in own_next_step], until])"))
spec("R2s-min-args", "R2", (SCHED, "    current_step_prog = [sim.current_step] if sim.current_step else []", "    current_step_prog = [sim.current_step] if sim.current_step is not None else []"))

# ----------------------------------------------------------------------------- R11
_TBCHK = "    if sim.type == 'time-based' and next_step_time is None:\n        raise SimulationError(\n            'a time-based simulator must always return a next step, but the step '\n            f'method of simulator \"{sim.sid}\" returned None'\n        )\n"
sens("R11-revert-D8", "R11", "R11/", (SCHED, _TBCHK, "    if sim.type == 'time-based':\n        assert next_step_time, 'A time-based simulator must always return a next step'\n"))
sens("R11-later-strict", "R11", "R11/not-later", (SCHED, "        if next_step_time <= sim.current_step.time:", "        if next_step_time < sim.current_step.time:"))
sens("R11-truthy-reply", "R11", "R11/not-later", (SCHED, "    if next_step_time is not None:\n        if not isinstance", "    if next_step_time:\n        if not isinstance"))
sens("R11-until-inclusive", "R11", "R11/schedule", (SCHED, "        if next_step_time < world.until:", "        if next_step_time <= world.until:"))
sens("R11-float-ok", "R11", "R11/not-int", (SCHED, "if not isinstance(next_step_time, int):", "if not isinstance(next_step_time, (int, float)):"))
sens("R11-valueerror", "R11", "R11/exc", (SCHED, "        if next_step_time <= sim.current_step.time:\n            raise SimulationError(", "        if next_step_time <= sim.current_step.time:\n            raise ValueError("))
sens("R11-no-sid", "R11", "R11/exc", (SCHED, "                f\"step's time, but {next_step_time} <= {sim.current_step.time} \"\n                f'for simulator \"{sim.sid}\"'", "                f\"step's time, but {next_step_time} <= {sim.current_step.time} \""))
sens("R11-out-ge", "R11", "R11/out", (SCHED, "        if sim.last_step.time > output_time:", "        if sim.last_step.time >= output_time:"))
sens("R11-out-store-first", "R11", "R11/out", (SCHED, "        sim.output_time = output_tiered_time\n        if sim.last_step.time > output_time:", "        sim.output_time = output_tiered_time\n        if sim.outputs is not None:\n            sim.outputs[output_time] = data\n        if sim.last_step.time > output_time:"))
sens("R11-out-no-check", "R11", "R11/out", (SCHED, "        if sim.last_step.time > output_time:\n            raise SimulationError(", "        if False:\n            raise SimulationError("))
sens("R11-sched-no-lift", "R11", "R11/sched-value", (SCHED, "            next_step_tiered_time = TieredTime(next_step_time) + sim.from_world_time", "            next_step_tiered_time = TieredTime(next_step_time, *sim.current_step.tiers[1:])"))
sens("R11-tb-only-check-type", "R11", "R11/", (SCHED, "    if sim.type == 'time-based' and next_step_time is None:", "    if sim.type == 'hybrid' and next_step_time is None:"))
sens("R11-step-last-time", "R11", "R11/time-arg", (SCHED, "await sim.step(sim.current_step.time, inputs, max_advance)", "await sim.step(sim.progress.time.time, inputs, max_advance)"))

spec("R11s-negated-cmp", "R11", (SCHED, "        if next_step_time <= sim.current_step.time:", "        if not next_step_time > sim.current_step.time:"))
spec("R11s-restructure-none", "R11", (SCHED, _TBCHK, ""), (SCHED, "    if next_step_time is not None:\n        if not isinstance", "    if next_step_time is None:\n        if sim.type == 'time-based':\n            raise SimulationError(f'time-based simulator \"{sim.sid}\" returned no next step')\n    else:\n        if not isinstance"))
spec("R11s-out-flip", "R11", (SCHED, "        if sim.last_step.time > output_time:", "        if output_time < sim.last_step.time:"))

# ----------------------------------------------------------------------------- R3 / R12
sens("R3-await-after-clear", "R3", "R3/P4", (SCHED, "            sim.current_step = None\n            notify_dependencies(sim)\n", "            sim.current_step = None\n            await asyncio.sleep(0)\n            notify_dependencies(sim)\n"))
sens("R3-await-in-advance-loop", "R3", "R3/P4", (SCHED, "            for isim in world.sims.values():\n                advance_progress(isim, world)\n", "            for isim in world.sims.values():\n                advance_progress(isim, world)\n                await asyncio.sleep(0)\n"))
sens("R3-pop-before-wait", "R3", "R3/P1", (SCHED, "            await wait_for_dependencies(sim, lazy_stepping)\n            sim.current_step = heappop(sim.next_steps)\n", "            sim.current_step = heappop(sim.next_steps)\n            await wait_for_dependencies(sim, lazy_stepping)\n"))
sens("R3-sleep-before-pop", "R3", "R3/P1", (SCHED, "            await wait_for_dependencies(sim, lazy_stepping)\n            sim.current_step = heappop(sim.next_steps)\n", "            await wait_for_dependencies(sim, lazy_stepping)\n            await rt_sleep(sim, world)\n            sim.current_step = heappop(sim.next_steps)\n"))
sens("R3-drop-stale-guard", "R3", "R3/P2", (SCHED, "            if sim.current_step != sim.progress.time:\n                raise SimulationError(", "            if False:\n                raise SimulationError("))
sens("R3-stale-max-advance", "R3", "R3/P3", (SCHED, "            await wait_for_dependencies(sim, lazy_stepping)\n", "            max_advance = get_max_advance(world, sim, until)\n            await wait_for_dependencies(sim, lazy_stepping)\n"), (SCHED, "            input_data = get_input_data(world, sim)\n            max_advance = get_max_advance(world, sim, until)\n", "            input_data = get_input_data(world, sim)\n"))
sens("R3-advance-own-only", "R3", "R3/P4", (SCHED, "            for isim in world.sims.values():\n                advance_progress(isim, world)\n", "            advance_progress(sim, world)\n"))
sens("R3-advance-successors-only", "R3", "R3/P4", (SCHED, "            for isim in world.sims.values():\n                advance_progress(isim, world)\n", "            for isim in [sim, *sim.successors]:\n                advance_progress(isim, world)\n"))
sens("R3-no-initial-advance", "R3", "R3/P5", (SCHED, "    try:\n        advance_progress(sim, world)\n        while await", "    try:\n        while await"))
sens("R12-gt", "R3", "R3/R12", (SCHED, "t >= world.max_loop_iterations for t in sim.current_step.tiers[1:]", "t > world.max_loop_iterations for t in sim.current_step.tiers[1:]"))
sens("R12-tiers2", "R3", "R3/R12", (SCHED, "t >= world.max_loop_iterations for t in sim.current_step.tiers[1:]", "t >= world.max_loop_iterations for t in sim.current_step.tiers[2:]"))
sens("R12-first-subtier", "R3", "R3/R12", (SCHED, "t >= world.max_loop_iterations for t in sim.current_step.tiers[1:]", "t >= world.max_loop_iterations for t in sim.current_step.tiers[1:2]"))
sens("R12-all", "R3", "R3/R12", (SCHED, "            if any(\n                t >= world.max_loop_iterations", "            if sim.current_step.tiers[1:] and all(\n                t >= world.max_loop_iterations"))
sens("R12-bound-plus", "R3", "R3/R12", (SCEN, "        self.max_loop_iterations = max_loop_iterations\n", "        self.max_loop_iterations = max_loop_iterations + 1\n"))
sens("R3-heap-append", "R3", "R3/P6", (SIMM, "        hq.heappush(self.next_steps, tiered_time)", "        self.next_steps.append(tiered_time)"))
sens("R3-step-request-args", "R3", "R3/P3b", (SIMM, 'return await self._proxy.send(["step", (time, inputs, max_advance), {}])', 'return await self._proxy.send(["step", (time, inputs, time), {}])'))
sens("R3-step-drop-max-advance", "R3", "R3/P3b", (SCHED, "next_step_time = await sim.step(sim.current_step.time, inputs, max_advance)", "next_step_time = await sim.step(sim.current_step.time, inputs, world.until)"))

spec("R3s-notify-before-clear", "R3", (SCHED, "            sim.current_step = None\n            notify_dependencies(sim)\n", "            notify_dependencies(sim)\n            sim.current_step = None\n"))
spec("R3s-inline-args", "R3", (SCHED, "            input_data = get_input_data(world, sim)\n            max_advance = get_max_advance(world, sim, until)\n            await step(world, sim, input_data, max_advance)", "            await step(world, sim, get_input_data(world, sim), get_max_advance(world, sim, until))"))
spec("R3s-guard-flip", "R3", (SCHED, "            if sim.current_step != sim.progress.time:", "            if not (sim.progress.time == sim.current_step):"))
spec("R12s-flip", "R3", (SCHED, "t >= world.max_loop_iterations for t in sim.current_step.tiers[1:]", "world.max_loop_iterations <= sub for sub in sim.current_step.tiers[1:]"))

# ----------------------------------------------------------------------------- R4
sens("R4-no-dedup", "R4", "R4/dedup", (SIMM, "        if tiered_time in self.next_steps:\n            return tiered_time\n", ""))
sens("R4-earlier-after-push", "R4", "R4/wake", (SIMM, "        is_earlier = not self.next_steps or tiered_time < self.next_steps[0]\n        hq.heappush(self.next_steps, tiered_time)\n", "        hq.heappush(self.next_steps, tiered_time)\n        is_earlier = not self.next_steps or tiered_time < self.next_steps[0]\n"))
sens("R4-earlier-inline-after", "R4", "R4/wake", (SIMM, "        is_earlier = not self.next_steps or tiered_time < self.next_steps[0]\n        hq.heappush(self.next_steps, tiered_time)\n        if is_earlier:", "        hq.heappush(self.next_steps, tiered_time)\n        if tiered_time < self.next_steps[0]:"))
sens("R4-wake-only-empty", "R4", "R4/wake", (SIMM, "        is_earlier = not self.next_steps or tiered_time < self.next_steps[0]", "        is_earlier = not self.next_steps"))
sens("R4-wake-gt", "R4", "R4/wake", (SIMM, "        is_earlier = not self.next_steps or tiered_time < self.next_steps[0]", "        is_earlier = not self.next_steps or tiered_time > self.next_steps[0]"))
sens("R4-settle-le", "R4", "R4/settle", (SCHED, "        if sim.next_steps and sim.next_steps[0] == sim.progress.time:", "        if sim.next_steps and sim.next_steps[0] <= sim.progress.time:"))
sens("R4-settle-until-le", "R4", "R4/settle", (SCHED, "    while sim.progress.time.time < world.until:", "    while sim.progress.time.time <= world.until:"))
sens("R4-wait-no-event", "R4", "R4/wait", (SCHED, "                asyncio.create_task(sim.newer_step.wait()),\n", ""))
sens("R4-wait-all", "R4", "R4/wait", (SCHED, '                    return_when="FIRST_COMPLETED",\n                    timeout=world.rt_factor,', '                    return_when="ALL_COMPLETED",'))
sens("R4-wait-empty-target", "R4", "R4/wait", (SCHED, "await_time = min(sim.next_steps[0], end) if sim.next_steps else end", "await_time = sim.next_steps[0] if sim.next_steps else sim.progress.time"))
sens("R4-clear-before-wait", "R4", "R4/wait", (SCHED, "            tasks = [\n                asyncio.create_task(sim.progress.has_reached(await_time)),", "            sim.newer_step.clear()\n            tasks = [\n                asyncio.create_task(sim.progress.has_reached(await_time)),"), (SCHED, "                    task.cancel()\n            sim.newer_step.clear()\n", "                    task.cancel()\n"))
sens("R4-clear-then-sleep", "R4", "R4/wait", (SCHED, "            sim.newer_step.clear()\n            if world.rt_factor:", "            sim.newer_step.clear()\n            await asyncio.sleep(0)\n            if world.rt_factor:"))
sens("R4-rt-no-advance", "R4", "R4/wait", (SCHED, "            if world.rt_factor:\n                advance_progress(sim, world)\n    return False", "    return False"))
sens("R4-notify-no-delay", "R4", "R4/notify", (SCHED, "                dest_sim.schedule_step(sim.output_time + delay)", "                dest_sim.schedule_step(sim.output_time)"))
sens("R4-notify-last-step", "R4", "R4/notify", (SCHED, "                dest_sim.schedule_step(sim.output_time + delay)", "                dest_sim.schedule_step(sim.last_step + delay)"))
sens("R4-notify-always", "R4", "R4/notify", (SCHED, "        if attr in sim.data.get(eid, {}):\n            for dest_sim, delay in triggered:\n                dest_sim.schedule_step(sim.output_time + delay)", "        for dest_sim, delay in triggered:\n            dest_sim.schedule_step(sim.output_time + delay)"))
sens("R4-notify-once-per-dest", "R4", "R4/notify", (SCHED, "    for (eid, attr), triggered in sim.triggers.items():\n        if attr in sim.data.get(eid, {}):\n            for dest_sim, delay in triggered:\n                dest_sim.schedule_step(sim.output_time + delay)", "    notified = []\n    for (eid, attr), triggered in sim.triggers.items():\n        if attr in sim.data.get(eid, {}):\n            for dest_sim, delay in triggered:\n                if dest_sim in notified:\n                    continue\n                notified.append(dest_sim)\n                dest_sim.schedule_step(sim.output_time + delay)"))
sens("R4-outtime-ge", "R4", "R4/outtime", (SCHED, "        if output_time == sim.current_step.time:\n            output_tiered_time = sim.current_step", "        if output_time >= sim.current_step.time:\n            output_tiered_time = sim.current_step"))
sens("R4-outtime-flat", "R4", "R4/outtime", (SCHED, "        if output_time == sim.current_step.time:\n            output_tiered_time = sim.current_step\n        else:\n            output_tiered_time = TieredTime(output_time, *([0] * (len(sim.current_step) - 1)))", "        output_tiered_time = TieredTime(output_time, *([0] * (len(sim.current_step) - 1)))"))
sens("R4-init-no-lift", "R4", "R4/init", (SCEN, "        sim.next_steps = [TieredTime(time) + sim.from_world_time]", "        sim.next_steps = [TieredTime(time)]"))

spec("R4s-le-earlier", "R4", (SIMM, "        is_earlier = not self.next_steps or tiered_time < self.next_steps[0]", "        is_earlier = len(self.next_steps) == 0 or tiered_time <= self.next_steps[0]"), note="<= is the same as < after dedup")
spec("R4s-settle-flip", "R4", (SCHED, "        if sim.next_steps and sim.next_steps[0] == sim.progress.time:", "        if sim.next_steps and sim.progress.time == sim.next_steps[0]:"))
spec("R4s-notify-index", "R4", (SCHED, "        if attr in sim.data.get(eid, {}):", "        if eid in sim.data and attr in sim.data[eid]:"))

# ----------------------------------------------------------------------------- R5
_MINSTORE = "        dest_sim.input_delays[src_sim] = min(dest_sim.input_delays.get(src_sim, delay), delay)\n"
sens("R5-revert-D4", "R5", "R5/store", (SCEN, "                    delay = update_min(dest_sim.triggering_ancestors.get(sim), delay)\n                    if delay is not None:\n                        dest_sim.triggering_ancestors[sim] = delay\n", "                    dest_sim.triggering_ancestors[sim] = delay\n"))
sens("R5-plain-store", "R5", "R5/store", (SCEN, _MINSTORE, "        dest_sim.input_delays[src_sim] = delay\n"))
sens("R5-setdefault", "R5", "R5/store", (SCEN, _MINSTORE, "        dest_sim.input_delays.setdefault(src_sim, delay)\n"))
sens("R5-max", "R5", "R5/store", (SCEN, _MINSTORE, "        dest_sim.input_delays[src_sim] = max(dest_sim.input_delays.get(src_sim, delay), delay)\n"))
sens("R5-explicit-reversed", "R5", "R5/store", (SCEN, _MINSTORE, "        known_delay = dest_sim.input_delays.get(src_sim)\n        if known_delay is None or known_delay < delay:\n            dest_sim.input_delays[src_sim] = delay\n"))
sens("R5-update-min-or", "R5", "R5/store", (SCEN, _MINSTORE, "        dest_sim.input_delays[src_sim] = update_min(dest_sim.input_delays.get(src_sim), delay) or delay\n"))
sens("R5-update-min-lt", "R5", "R5/update_min", (SCEN, "    if a <= b:  # type: ignore\n        return None", "    if a < b:  # type: ignore\n        return None"))
sens("R5-update-min-ge", "R5", "R5/update_min", (SCEN, "    if a <= b:  # type: ignore\n        return None", "    if a >= b:  # type: ignore\n        return None"))
sens("R5-closure-unguarded", "R5", "R5/store", (SCEN, "                        if src_to_dest is not None:\n                            dirty.add(dest_sim)\n                            dest_sim.triggering_ancestors[src_sim] = src_to_dest", "                        if True:\n                            dirty.add(dest_sim)\n                            dest_sim.triggering_ancestors[src_sim] = src_to_mid + mid_to_dest"))
spec("R5s-explicit", "R5", (SCEN, _MINSTORE, "        known_delay = dest_sim.input_delays.get(src_sim)\n        if known_delay is None or delay < known_delay:\n            dest_sim.input_delays[src_sim] = delay\n"))
spec("R5s-explicit-in", "R5", (SCEN, _MINSTORE, "        if src_sim not in dest_sim.input_delays or delay < dest_sim.input_delays[src_sim]:\n            dest_sim.input_delays[src_sim] = delay\n"))
spec("R5s-min-swapped", "R5", (SCEN, _MINSTORE, "        dest_sim.input_delays[src_sim] = min(delay, dest_sim.input_delays.get(src_sim, delay))\n"))
spec("R5s-update-min-flip", "R5", (SCEN, "    if a <= b:  # type: ignore\n        return None", "    if not (b < a):  # type: ignore\n        return None"))
sens("R2-is-in-step", "R2", "R2/anc", (SCHED, "    if sim.current_step is not None:\n        return sim.current_step\n    if sim.next_steps:", "    if sim.is_in_step:\n        return sim.current_step\n    if sim.next_steps:"))
# (a variant `if sim.is_in_step or sim.current_step is not None` is correct only through the invariant is_in_step => current_step set;
# conditions unrelated to holder/heap are free atoms for R2, so it would be reported: accepted limitation, not in the corpus)

# ----------------------------------------------------------------------------- R6
sens("R6-revert-D1", "R6", "R6/", (TT, "            if o < s:\n                if o_add_s_ext:", "            if o > s:\n                if o_add_s_ext:"))
sens("R6-swap-consts", "R6", "R6/ti-lt", (TT, "                    assert False, f\"{self} and {other} are incomparable\"\n                return True", "                    assert False, f\"{self} and {other} are incomparable\"\n                return False"))
sens("R6-le-first", "R6", "R6/ti-lt", (TT, "            if s < o:\n                if s_add_o_ext:", "            if s <= o:\n                if s_add_o_ext:"))
sens("R6-fallthrough-true", "R6", "R6/ti-lt", (TT, "                return False\n        return False", "                return False\n        return True"))
sens("R6-tt-time-only", "R6", "R6/tt-lt", (TT, "        return self.tiers < other.tiers", "        return self.tiers[0] < other.tiers[0]"))
sens("R6-tt-no-assert", "R6", "R6/tt-lt", (TT, "    def __lt__(self, other: TieredTime) -> bool:\n        assert len(self) == len(other)\n", "    def __lt__(self, other: TieredTime) -> bool:\n"))
sens("R6-not-frozen-eq", "R6", "R6/class", (TT, "@functools.total_ordering\n@dataclass(frozen=True)\nclass TieredTime:", "@functools.total_ordering\n@dataclass(frozen=True, eq=False)\nclass TieredTime:"))
sens("R6-dead-test-elsewhere", "R6", "R6/dead-test", (SIMM, "        if tiered_time in self.next_steps:\n            return tiered_time\n", "        if tiered_time in self.next_steps:\n            return tiered_time\n        if tiered_time in self.next_steps:\n            return None\n"))
spec("R6s-flip", "R6", (TT, "            if o < s:\n                if o_add_s_ext:", "            if s > o:\n                if o_add_s_ext:"))
spec("R6s-elif", "R6", (TT, "                return True\n            if o < s:", "                return True\n            elif o < s:"))
spec("R6s-no-enumerate", "R6", (TT, "        return self.tiers < other.tiers", "        return tuple(self.tiers) < tuple(other.tiers)"), note="expected to be reported unknown? no: tuple() wrapper")

# ----------------------------------------------------------------------------- R20 / R10(connect)
sens("R20-paren-slip", "R20", "R20/reject", (SCEN, "        if (time_shifted or weak) and dest_attr in dest.model_mock.measurement_inputs:", "        if time_shifted or (weak and dest_attr in dest.model_mock.measurement_inputs):"))
sens("R20-only-shifted", "R20", "R20/reject", (SCEN, "        if (time_shifted or weak) and dest_attr in dest.model_mock.measurement_inputs:", "        if time_shifted and dest_attr in dest.model_mock.measurement_inputs:"))
sens("R20-src-check-inputs", "R20", "R20/reject", (SCEN, "        if src_attr not in src.model_mock.output_attrs:", "        if src_attr not in src.model_mock.input_attrs:"))
sens("R20-dest-check-triggers", "R20", "R20/reject", (SCEN, "        if dest_attr not in dest.model_mock.input_attrs:", "        if dest_attr not in dest.model_mock.event_inputs:"))
sens("R20-no-dest-check", "R20", "R20/reject", (SCEN, "        if dest_attr not in dest.model_mock.input_attrs:\n            problems.append(\n                \"the destination attribute does not exist\"\n            )\n", ""))
sens("R20-valueerror", "R20", "R20/exc", (SCEN, "        if problems:\n            raise ScenarioError(", "        if problems:\n            raise ValueError("))
sens("R20-effect-before-raise", "R20", "R20/R10", (SCEN, "        problems: List[str] = []\n", "        problems: List[str] = []\n        src_sim.output_request.setdefault(src.eid, []).append(src_attr)\n"), (SCEN, "\n        src_sim.output_request.setdefault(src.eid, []).append(src_attr)\n\n        if is_pulled:", "\n        if is_pulled:"))
sens("R20-successors-not-weak", "R20", "R20/table/", (SCEN, "        src_sim.successors[dest_sim] = connect_interval(src_group, dest_group)\n", "        if not weak:\n            src_sim.successors[dest_sim] = connect_interval(src_group, dest_group)\n"))
sens("R20-triggers-unconditional", "R20", "R20/table/", (SCEN, "        if dest.triggered_by(dest_attr):\n            src_sim.triggers", "        if True:\n            src_sim.triggers"))
sens("R20-triggers-no-shift", "R20", "R20/delay", (SCEN, "            src_sim.triggers.setdefault(src_port, []).append((dest_sim, delay))", "            src_sim.triggers.setdefault(src_port, []).append((dest_sim, connect_interval(src_group, dest_group)))"))
sens("R20-successors-delay", "R20", "R20/delay", (SCEN, "        src_sim.successors[dest_sim] = connect_interval(src_group, dest_group)\n", "        src_sim.successors[dest_sim] = delay\n"))
sens("R20-swapped-groups", "R20", "R20/delay", (SCEN, "        delay = connect_interval(src_group, dest_group, int(time_shifted), int(weak))", "        delay = connect_interval(dest_group, src_group, int(time_shifted), int(weak))"))
sens("R20-drop-weak", "R20", "R20/delay", (SCEN, "        delay = connect_interval(src_group, dest_group, int(time_shifted), int(weak))", "        delay = connect_interval(src_group, dest_group, int(time_shifted))"))
sens("R20-init-cache-key", "R20", "R20/delay", (SCEN, "                    -int(time_shifted), {}", "                    -1, {}"))
sens("R20-push-persistent", "R20", "R20/table/", (SCEN, "        is_pulled = src_sim.outputs is not None and src.is_persistent(src_attr)", "        is_pulled = src_sim.outputs is not None"))
sens("R20-connect-drop-weak", "R20", "R20/connect", (SCEN, "                    time_shifted=time_shifted,\n                    weak=weak,\n", "                    time_shifted=time_shifted,\n"))
sens("R20-async-no-wait", "R20", "R20/async", (SCEN, "        src_sim.successors_to_wait_for[dest_sim] = delay\n", ""))
sens("R20-async-no-input-delay", "R20", "R20/async", (SCEN, "        dest_sim.input_delays[src_sim] = delay\n", ""))
spec("R20s-raise-direct", "R20", (SCEN, "        if src_attr not in src.model_mock.output_attrs:\n            problems.append(\n                \"the source attribute does not exist\"\n            )\n", "        if src_attr not in src.model_mock.output_attrs:\n            raise ScenarioError(f\"{src.full_id} has no output attribute {src_attr}\")\n"))
spec("R20s-demorgan", "R20", (SCEN, "        if (time_shifted or weak) and dest_attr in dest.model_mock.measurement_inputs:", "        if dest_attr in dest.model_mock.measurement_inputs and not (not time_shifted and not weak):"))
spec("R20s-kwargs", "R20", (SCEN, "        delay = connect_interval(src_group, dest_group, int(time_shifted), int(weak))", "        delay = connect_interval(src_group, dest_group, time_shifted=int(time_shifted), weak=int(weak))"))

# ----------------------------------------------------------------------------- R19
sens("R19-zero-eq-interval", "R19", "R19/zero", (SCEN, "            if all(t == 0 for t in delay.tiers):", "            if delay == TieredInterval(*([0] * len(delay))):"))
sens("R19-zero-any", "R19", "R19/zero", (SCEN, "            if all(t == 0 for t in delay.tiers):", "            if any(t == 0 for t in delay.tiers):"))
sens("R19-zero-first-tier", "R19", "R19/zero", (SCEN, "            if all(t == 0 for t in delay.tiers):", "            if all(t == 0 for t in delay.tiers[:1]):"))
sens("R19-no-gate", "R19", "R19/gate", (SCEN, "        self.ensure_no_dataflow_cycles()\n\n        self.cache_triggering_ancestors()", "        self.cache_triggering_ancestors()"))
sens("R19-gate-in-try", "R19", "R19/gate", (SCEN, "        self.ensure_no_dataflow_cycles()\n\n        self.cache_triggering_ancestors()", "        try:\n            self.ensure_no_dataflow_cycles()\n        except ScenarioError as e:\n            logger.warning(str(e))\n\n        self.cache_triggering_ancestors()"))
sens("R19-swapped-sum", "R19", "R19/closure", (SCEN, "                    src_to_dest = src_to_mid + mid_to_dest\n                    src_to_dest = update_min(\n                        sim_descs", "                    src_to_dest = mid_to_dest + src_to_mid\n                    src_to_dest = update_min(\n                        sim_descs"))
sens("R19-no-requeue", "R19", "R19/closure", (SCEN, "                        dirty.add(src_sim)\n", "                        pass\n"))
sens("R19-requeue-mid", "R19", "R19/closure", (SCEN, "                        dirty.add(src_sim)\n", "                        dirty.add(mid_sim)\n"))
sens("R19-anc-swapped-sum", "R19", "R19/anc-closure", (SCEN, "                        src_to_dest = src_to_mid + mid_to_dest\n                        src_to_dest = update_min(dest_sim.triggering_ancestors", "                        src_to_dest = mid_to_dest + src_to_mid\n                        src_to_dest = update_min(dest_sim.triggering_ancestors"))
sens("R19-weak-tier", "R19", "R19/interval", (SCEN, "        list_tiers[cutoff - 1] = weak", "        list_tiers[-1] = weak"))
sens("R19-weak-tier1", "R19", "R19/interval", (SCEN, "        list_tiers[cutoff - 1] = weak", "        list_tiers[1] = weak"))
sens("R19-cutoff-descent", "R19", "R19/interval", (SCEN, "    ascent, _, common_group = group_path(src_group, dest_group)", "    _, ascent, common_group = group_path(src_group, dest_group)"))
sens("R19-weak-root-ok", "R19", "R19/interval", (SCEN, "    if weak and not common_group.parent:\n        raise ScenarioError(", "    if weak and not src_group.parent:\n        raise ScenarioError("))
sens("R19-prelength-dest", "R19", "R19/interval", (SCEN, "    pre_length = src_group.depth", "    pre_length = dest_group.depth"))
sens("R19-extra-writer", "R19", "R19/writers", (SCEN, "        sim.next_steps = [TieredTime(time) + sim.from_world_time]", "        sim.next_steps = [TieredTime(time) + sim.from_world_time]\n        sim.input_delays.clear()"))
sens("R19-path-missing", "R19", "R19/zero", (SCEN, '                    f"Your scenario contains cycles, for example: {path}."', '                    "Your scenario contains cycles."'))
spec("R19s-rename", "R19", (SCEN, "            if all(t == 0 for t in delay.tiers):", "            if all(0 == tier for tier in delay.tiers):"))
spec("R19s-set-comp", "R19", (SCEN, "        dirty: Set[SimRunner] = set(self.sims.values())", "        dirty: Set[SimRunner] = {s for s in self.sims.values()}"))
sens("R4-revert-D23", "R4", "R4/wait", (SCHED, "await_time = min(sim.next_steps[0], end) if sim.next_steps else end", "await_time = sim.next_steps[0] if sim.next_steps else end"))
spec("R4s-min-bag", "R4", (SCHED, "await_time = min(sim.next_steps[0], end) if sim.next_steps else end", "await_time = min([*([sim.next_steps[0]] if sim.next_steps else []), end])"))
sens("R12-tuple-compare", "R3", "R3/R12", (SCHED, "            if any(\n                t >= world.max_loop_iterations for t in sim.current_step.tiers[1:]\n            ):", "            if sim.current_step.tiers[1:] >= (world.max_loop_iterations,):"))

# ----------------------------------------------------------------------------- R22
sens("R22-sub-outset", "R22", "R22/op", (IOS, "            return other._set - self._set", "            return self._set - other._set"))
sens("R22-sub-fin", "R22", "R22/op", (IOS, "            return OutSet(self._set | other)", "            return OutSet(self._set - other)"))
sens("R22-rsub", "R22", "R22/op", (IOS, "        return rother & self._set", "        return rother - self._set"))
sens("R22-and-outset", "R22", "R22/op", (IOS, "            return OutSet(self._set | other._set)", "            return OutSet(self._set & other._set)"))
sens("R22-and-fin", "R22", "R22/op", (IOS, "            return other - self._set", "            return other & self._set"))
sens("R22-rand", "R22", "R22/op", (IOS, "        return rother - self._set", "        return rother & self._set"))
sens("R22-or-outset", "R22", "R22/op", (IOS, "            return OutSet(self._set & other._set)", "            return OutSet(self._set | other._set)"))
sens("R22-or-fin", "R22", "R22/op", (IOS, "            return OutSet(self._set - other)", "            return OutSet(self._set | other)"))
sens("R22-ror", "R22", "R22/op", (IOS, "        return OutSet(self._set - rother)", "        return OutSet(rother - self._set)"))
sens("R22-or-kind", "R22", "R22/op", (IOS, "            return OutSet(self._set - other)", "            return self._set - other"))
sens("R22-contains", "R22", "R22/op", (IOS, "        return item not in self._set", "        return item in self._set"))
sens("R22-eq-any", "R22", "R22/op", (IOS, "        if not isinstance(other, OutSet):\n            return False", "        if not isinstance(other, OutSet):\n            return not self._set and not other"))
sens("R22-triple-cover-simplified", "R22", "R22/triple", (IOS, "    if not union == (part_a | part_b):", "    if not union - part_a == part_b:"))
sens("R22-triple-infer-a", "R22", "R22/triple", (IOS, "            part_a = union - part_b", "            part_a = union"))
sens("R22-triple-infer-b", "R22", "R22/triple", (IOS, "        part_b = union - part_a", "        part_b = part_a - union"))
sens("R22-triple-no-disjoint", "R22", "R22/triple", (IOS, "    if not part_a & part_b == frozenset():", "    if False:"))
sens("R22-triple-swap-return", "R22", "R22/triple", (IOS, "    return part_a, part_b", "    return part_b, part_a"))
sens("R22-triple-missing", "R22", "R22/triple", (IOS, "        if part_b is not None:\n            part_a = union - part_b\n        else:\n            raise missing_value_error", "        if part_b is not None:\n            part_a = union - part_b\n        else:\n            part_a = union"))
sens("R22-hybrid-default-attrs", "R22", "R22/defaults", (SCEN, "        default_measurements = None if 'trigger' in model_desc else inputs", "        default_measurements = None if 'trigger' in model_desc else wrap_set(model_desc.get('attrs'))"))
sens("R22-tb-default-swap", "R22", "R22/defaults", (SCEN, "    if type == 'time-based':\n        default_measurements = None\n        default_events = empty", "    if type == 'time-based':\n        default_measurements = empty\n        default_events = None"))
sens("R22-any-inputs-outputs", "R22", "R22/defaults", (SCEN, "    outputs = wrap_set(model_desc.get('attrs'))", "    outputs = inputs"))
sens("R22-eb-persistent-default", "R22", "R22/defaults", (SCEN, "    default_measurements = empty if type == 'event-based' else None\n    measurement_outputs", "    default_measurements = None\n    measurement_outputs"))
sens("R22-forbidden-swap", "R22", "R22/forbidden", (SCEN, "    if type == 'time-based' and event_outputs != frozenset():", "    if type == 'time-based' and measurement_outputs != frozenset():"))
sens("R22-forbidden-drop", "R22", "R22/forbidden", (SCEN, "    if type == 'event-based' and measurement_inputs != frozenset():", "    if type == 'hybrid' and measurement_inputs != frozenset():"))
sens("R22-tuple-order", "R22", "R22/tuple", (SCEN, "    return measurement_inputs, event_inputs, measurement_outputs, event_outputs", "    return event_inputs, measurement_inputs, measurement_outputs, event_outputs"))
sens("R22-triggered-by-meas", "R22", "R22/readers", (SCEN, "        return attr in self.model_mock.event_inputs", "        return attr in self.model_mock.input_attrs"))
spec("R22s-hoist-attrs", "R22", (SCEN, "        inputs = wrap_set(model_desc.get('attrs'))\n    empty", "        attrs = wrap_set(model_desc.get('attrs'))\n        inputs = attrs\n    empty"))
spec("R22s-cover-flip", "R22", (IOS, "    if not union == (part_a | part_b):", "    if (part_b | part_a) != union:"))
spec("R22s-or-commute", "R22", (IOS, "            return OutSet(self._set & other._set)", "            return OutSet(other._set & self._set)"))
sens("R6-flags-swapped", "R6", "R6/ti-lt", (TT, "            s_add_o_ext = other.cutoff <= i < self.cutoff\n            o_add_s_ext = self.cutoff <= i < other.cutoff", "            s_add_o_ext = self.cutoff <= i < other.cutoff\n            o_add_s_ext = other.cutoff <= i < self.cutoff"))
sens("R6-no-incomparable", "R6", "R6/ti-lt", (TT, "                if s_add_o_ext:\n                    assert False, f\"{self} and {other} are incomparable\"\n                return True", "                return True"))
sens("R6-hand-gt", "R6", "R6/class", (TT, "@functools.total_ordering\n@dataclass(frozen=True)\nclass TieredInterval:", "@dataclass(frozen=True)\nclass TieredInterval:"), (TT, "    def __repr__(self):\n        return (\n            f\"{':'.join(map(str, self.add))}", "    def __le__(self, other):\n        return self < other or self == other\n\n    def __gt__(self, other):\n        return not self < other\n\n    def __ge__(self, other):\n        return not self < other\n\n    def __repr__(self):\n        return (\n            f\"{':'.join(map(str, self.add))}"))
spec("R6s-hand-ops-right", "R6", (TT, "@functools.total_ordering\n@dataclass(frozen=True)\nclass TieredInterval:", "@dataclass(frozen=True)\nclass TieredInterval:"), (TT, "    def __repr__(self):\n        return (\n            f\"{':'.join(map(str, self.add))}", "    def __le__(self, other):\n        return self < other or self == other\n\n    def __gt__(self, other):\n        return other < self\n\n    def __ge__(self, other):\n        return not self < other\n\n    def __repr__(self):\n        return (\n            f\"{':'.join(map(str, self.add))}"))

# ----------------------------------------------------------------------------- R24
sens("R24-precomputed-set", "R24", "R24/returned", (UTIL, "    connected: Set[Entity] = set()\n\n    src_size, dest_size = len(src_set), len(dest_set)\n    pos = 0", "    src_size, dest_size = len(src_set), len(dest_set)\n    connected: Set[Entity] = set(dest_set[:src_size])\n    pos = 0"), (UTIL, "            connect(src, dest, *attrs)\n            connected.add(dest)\n        pos += dest_size", "            connect(src, dest, *attrs)\n        pos += dest_size"))
sens("R24-add-src", "R24", "R24/returned", (UTIL, "            connect(src, dest, *attrs)\n            connected.add(dest)\n        pos += dest_size", "            connect(src, dest, *attrs)\n            connected.add(src)\n        pos += dest_size"))
sens("R24-capacity-else", "R24", "R24/capacity", (UTIL, "        connected.add(dest)\n        connects[dest] = connects.get(dest, 0) + 1\n        if connects[dest] >= max_connects:\n            dest_set.remove(dest)\n            max_i -= 1\n", "        if dest not in connected:\n            connected.add(dest)\n            connects[dest] = 1\n        else:\n            connects[dest] += 1\n            if connects[dest] >= max_connects:\n                dest_set.remove(dest)\n                max_i -= 1\n"))
sens("R24-capacity-gt", "R24", "R24/capacity", (UTIL, "        if connects[dest] >= max_connects:", "        if connects[dest] > max_connects:"))
sens("R24-stride-one", "R24", "R24/chunk", (UTIL, "        pos += dest_size", "        pos += 1"))
sens("R24-stride-src", "R24", "R24/chunk", (UTIL, "        pos += dest_size", "        pos += src_size"))
sens("R24-m2o-skip", "R24", "R24/m2o", (UTIL, "    for src in src_set:\n        world.connect(src, dest, *attrs, async_requests=async_requests)", "    for src in src_set:\n        if src is not dest:\n            world.connect(src, dest, *attrs, async_requests=async_requests)"))
sens("R24-m2o-no-async", "R24", "R24/m2o", (UTIL, "        world.connect(src, dest, *attrs, async_requests=async_requests)", "        world.connect(src, dest, *attrs)"))
sens("R24-front-drop-max", "R24", "R24/front", (UTIL, "            world, src_set, dest_set, *attrs, max_connects=max_connects\n", "            world, src_set, dest_set, *attrs\n"))
sens("R24-random-skip", "R24", "R24/once", (UTIL, "        dest = dest_set[i]\n        connect(src, dest, *attrs)", "        dest = dest_set[i]\n        if dest in connected and len(connected) < len(dest_set):\n            continue\n        connect(src, dest, *attrs)"))
spec("R24s-idempotent-add", "R24", (UTIL, "        connect(src, dest, *attrs)\n        connected.add(dest)\n        connects[dest]", "        connect(src, dest, *attrs)\n        if dest not in connected:\n            connected.add(dest)\n        connects[dest]"))
spec("R24s-len", "R24", (UTIL, "        pos += dest_size", "        pos += len(dest_set)"))

# ----------------------------------------------------------------------------- R23
sens("R23-step-kwargs", "R23", "R23/shape", (SIMM, 'return await self._proxy.send(["step", (time, inputs, max_advance), {}])', 'return await self._proxy.send(["step", (time, inputs), {"max_advance": max_advance}])'))
sens("R23-no-truncate", "R23", "R23/feature", (ADAP, '                request = ("step", args[0:2], kwargs)', '                request = ("step", args, kwargs)'))
sens("R23-truncate-3", "R23", "R23/feature", (ADAP, '                request = ("step", args[0:2], kwargs)', '                request = ("step", args[0:3], kwargs)'))
sens("R23-truncate-wrong-func", "R23", "R23/feature", (ADAP, '            if func_name == "step":\n                request = ("step", args[0:2], kwargs)', '            if func_name == "get_data":\n                request = ("step", args[0:2], kwargs)'))
sens("R23-setup-done-forwarded", "R23", "R23/feature", (ADAP, '            if func_name == "setup_done":\n                return None', '            if func_name == "setup_done":\n                pass'))
sens("R23-type-default", "R23", "R23/feature", (ADAP, '        self._out.meta.setdefault("type", "time-based")', '        self._out.meta.setdefault("type", "hybrid")'))
sens("R23-swap-thresholds", "R23", "R23/gate", (ADAP, "    if version < [2, 2]:\n        proxy = V2ToV1Adapter(proxy)\n    if version < [3]:\n        proxy = V3ToV2Adapter(proxy)", "    if version < [3]:\n        proxy = V2ToV1Adapter(proxy)\n    if version < [2, 2]:\n        proxy = V3ToV2Adapter(proxy)"))
sens("R23-elif", "R23", "R23/gate", (ADAP, "    if version < [3]:\n        proxy = V3ToV2Adapter(proxy)", "    elif version < [3]:\n        proxy = V3ToV2Adapter(proxy)"))
sens("R23-threshold-2", "R23", "R23/gate", (ADAP, "    if version < [2, 2]:", "    if version < [2]:"))
sens("R23-no-v4-reject", "R23", "R23/gate", (ADAP, "    if version >= [4]:", "    if version >= [5]:"))
sens("R23-no-mismatch", "R23", "R23/gate", (ADAP, "    if explicit_version and version != explicit_version:", "    if explicit_version and version[0] != explicit_version[0] and False:"))
sens("R23-parse-patch-level", "R23", "R23/versions", (PROX, '        return list(map(int, meta["api_version"].split(".")))', '        return list(map(int, meta["api_version"].split(".")[:2]))'))
sens("R23-missing-version-3", "R23", "R23/versions", (PROX, '    if "api_version" not in meta:\n        return [1]', '    if "api_version" not in meta:\n        return [3]'))
sens("R23-keep-time-resolution", "R23", "R23/local", (PROX, '            forced_old_api = True\n            del kwargs["time_resolution"]', '            forced_old_api = True'))
sens("R23-always-drop", "R23", "R23/local", (PROX, '        if check_api_compliance(self.sim):\n            forced_old_api = False\n        else:\n            forced_old_api = True\n            del kwargs["time_resolution"]', '        forced_old_api = not check_api_compliance(self.sim)\n        del kwargs["time_resolution"]'))
sens("R23-no-claim-reject", "R23", "R23/local", (PROX, "        if forced_old_api and version >= [3]:", "        if forced_old_api and version >= [4]:"))
spec("R23s-slice", "R23", (ADAP, '                request = ("step", args[0:2], kwargs)', '                request = ("step", args[:2], kwargs)'))
spec("R23s-flag-expr", "R23", (PROX, '        if check_api_compliance(self.sim):\n            forced_old_api = False\n        else:\n            forced_old_api = True\n            del kwargs["time_resolution"]', '        forced_old_api = not check_api_compliance(self.sim)\n        if forced_old_api:\n            del kwargs["time_resolution"]'))
