"""Checker self-test harness: apply small source edits to a scratch copy of the package and
run rules on it *statically* (nothing is executed).  Two corpora:

* sensitivity: each variant breaks one rule instance; the named rule must report `violated`
  (and the report must mention the expected obligation id);
* specificity: behaviour-preserving refactorings; every rule must stay silent (no violated, no
  unknown).

A variant whose `old` text is not found in the current tree is *skipped* (the tree changed), a
variant that does not compile is *discarded*; both are counted.  Scratch copies live under a
mkdtemp directory outside /repo and /verif and are removed before returning.
"""
from __future__ import annotations

import os
import shutil
import sys
import tempfile
from concurrent.futures import ProcessPoolExecutor
from dataclasses import dataclass, field
from typing import Dict, List, Optional, Sequence, Tuple

from ..loader import REPO, PACKAGE


@dataclass
class Variant:
    vid: str
    edits: List[Tuple[str, str, str]]            # (relative file, old, new)
    expect: str                                  # "violated" | "silent"
    rules: List[str]                             # rules to run ("violated": at least one must fire)
    oid: Optional[str] = None                    # obligation id prefix that must be among the violated ones
    note: str = ""


def _apply(root: str, v: Variant) -> Optional[str]:
    for rel, old, new in v.edits:
        p = os.path.join(root, rel)
        with open(p) as f:
            s = f.read()
        if s.count(old) < 1:
            return f"skipped: text not found in {rel}"
        s = s.replace(old, new, 1)
        try:
            compile(s, p, "exec", dont_inherit=True)
        except SyntaxError as e:
            return f"discarded: does not compile ({e})"
        with open(p, "w") as f:
            f.write(s)
    return None


def _run_variant(args) -> Dict:
    v, repo = args
    tmp = tempfile.mkdtemp(prefix="mverif-st-")
    try:
        shutil.copytree(os.path.join(repo, PACKAGE), os.path.join(tmp, PACKAGE),
                        ignore=shutil.ignore_patterns("__pycache__"))
        why = _apply(tmp, v)
        if why:
            return {"vid": v.vid, "status": why.split(":")[0], "detail": why}
        from ..loader import Program, AnalysisError
        from ..rules.base import Ctx
        from .. import props
        try:
            prog = Program(tmp)
            ctx = Ctx(prog)
            fired, unknown, errors = [], [], []
            for r in v.rules:
                try:
                    col = props.rule_module(r).run(ctx)
                except AnalysisError as e:
                    errors.append(f"{r}: {e}")
                    continue
                for o in col.obs:
                    if o.verdict == "violated":
                        fired.append(o.key)
                    elif o.verdict == "unknown":
                        unknown.append(o.key)
        except AnalysisError as e:
            errors = [str(e)]
            fired, unknown = [], []
        except Exception as e:  # checker crash
            import traceback
            return {"vid": v.vid, "status": "crash", "detail": traceback.format_exc()[-800:]}
        from ..report import load_known
        known = {k["key"] for k in load_known() if k.get("status") == "known"}
        fired = [k for k in fired if k not in known]      # known findings fire on every tree
        if v.expect == "violated":
            hit = [k for k in fired if v.oid is None or k.startswith(v.oid)]
            ok = bool(hit)
            return {"vid": v.vid, "status": "ok" if ok else "MISSED", "fired": fired[:6], "unknown": unknown[:4], "errors": errors[:2]}
        ok = not fired and not unknown and not errors
        return {"vid": v.vid, "status": "ok" if ok else "FALSE-ALARM", "fired": fired[:6], "unknown": unknown[:4], "errors": errors[:2]}
    finally:
        shutil.rmtree(tmp, ignore_errors=True)


def run_variants(variants: Sequence[Variant], repo: str = REPO, jobs: int = 16) -> List[Dict]:
    if not variants:
        return []
    work = [(v, repo) for v in variants]
    if jobs <= 1 or len(work) == 1:
        return [_run_variant(w) for w in work]
    with ProcessPoolExecutor(max_workers=min(jobs, len(work))) as ex:
        return list(ex.map(_run_variant, work))
