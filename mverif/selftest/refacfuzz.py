"""Systematic *behaviour-preserving* AST transformations of every function of the package (the
negative counterpart of automut.py): consistent renaming of locals, flipped comparisons
(`a < b` -> `b > a`), inverted if/else (`if c: A else: B` -> `if not c: B else: A`), inserted no-op
statements.  Every rule must stay silent on every transformed tree: a violation is a false alarm, an
unknown a lost verdict.  usage: python -m mverif.selftest.refacfuzz [limit]"""
from __future__ import annotations

import ast
import builtins
import copy
import json
import os
import random
import shutil
import sys
import tempfile
from concurrent.futures import ProcessPoolExecutor
from typing import Dict, List, Optional, Tuple

from ..loader import PACKAGE, REPO, Program
from .automut import _qualnames

FLIP = {ast.Lt: ast.Gt, ast.Gt: ast.Lt, ast.LtE: ast.GtE, ast.GtE: ast.LtE, ast.Eq: ast.Eq, ast.NotEq: ast.NotEq}


def _own_nodes(fn: ast.AST):
    """Nodes of a function without the bodies of nested functions / classes / lambdas."""
    todo = list(ast.iter_child_nodes(fn))
    while todo:
        n = todo.pop()
        yield n
        if isinstance(n, (ast.FunctionDef, ast.AsyncFunctionDef, ast.ClassDef, ast.Lambda)):
            continue
        todo.extend(ast.iter_child_nodes(n))


def t_rename(fn: ast.AST) -> bool:
    """x -> x_r for every plain local (assigned name that is neither a parameter, global/nonlocal,
    nor used by a nested function)."""
    a = fn.args
    params = {p.arg for p in a.posonlyargs + a.args + a.kwonlyargs} | ({a.vararg.arg} if a.vararg else set()) | ({a.kwarg.arg} if a.kwarg else set())
    assigned, banned = set(), set()
    for n in _own_nodes(fn):
        if isinstance(n, ast.Name) and isinstance(n.ctx, (ast.Store, ast.Del)):
            assigned.add(n.id)
        elif isinstance(n, (ast.Global, ast.Nonlocal)):
            banned |= set(n.names)
        elif isinstance(n, (ast.FunctionDef, ast.AsyncFunctionDef, ast.ClassDef, ast.Lambda)):
            banned |= {x.id for x in ast.walk(n) if isinstance(x, ast.Name)}
            if not isinstance(n, ast.Lambda):
                banned.add(n.name)
        elif isinstance(n, ast.ExceptHandler) and n.name:
            banned.add(n.name)
        elif isinstance(n, (ast.Import, ast.ImportFrom)):
            banned |= {(al.asname or al.name).split(".")[0] for al in n.names}
        elif isinstance(n, ast.comprehension):
            pass
    names = {x for x in assigned - params - banned if not x.startswith("__") and not hasattr(builtins, x) and x != "_"}
    if not names:
        return False
    for n in _own_nodes(fn):
        if isinstance(n, ast.Name) and n.id in names:
            n.id = n.id + "_r"
    return True


def t_flip_cmp(fn: ast.AST) -> bool:
    hit = False
    for n in _own_nodes(fn):
        if isinstance(n, ast.Compare) and len(n.ops) == 1 and type(n.ops[0]) in (ast.Lt, ast.Gt, ast.LtE, ast.GtE):
            n.left, n.comparators[0] = n.comparators[0], n.left
            n.ops[0] = FLIP[type(n.ops[0])]()
            hit = True
    return hit


def t_invert_if(fn: ast.AST) -> bool:
    hit = False
    for n in _own_nodes(fn):
        if isinstance(n, ast.If) and n.orelse and not (len(n.orelse) == 1 and isinstance(n.orelse[0], ast.If)):
            n.test = n.test.operand if isinstance(n.test, ast.UnaryOp) and isinstance(n.test.op, ast.Not) else ast.UnaryOp(op=ast.Not(), operand=n.test)
            n.body, n.orelse = n.orelse, n.body
            hit = True
    return hit


def t_noop(fn: ast.AST) -> bool:
    """A bare string statement (a stray comment-like docstring) in front of every statement list."""
    hit = False
    for n in [fn] + list(_own_nodes(fn)):
        for fld in ("body", "orelse", "finalbody"):
            body = getattr(n, fld, None)
            if isinstance(body, list) and body and isinstance(body[0], ast.stmt) and not isinstance(n, (ast.ClassDef,)):
                start = 1 if (n is fn and isinstance(body[0], ast.Expr) and isinstance(body[0].value, ast.Constant) and isinstance(body[0].value.value, str)) else 0
                body.insert(start, ast.Pass())
                hit = True
    return hit


TRANSFORMS = {"rename-locals": t_rename, "flip-comparisons": t_flip_cmp, "invert-if-else": t_invert_if, "insert-pass": t_noop}


def generate(repo: str = REPO) -> List[Tuple[str, str, str, str]]:
    """(id, relative path, transform, new source)"""
    out = []
    pkg = os.path.join(repo, PACKAGE)
    for root, _, files in os.walk(pkg):
        for f in sorted(files):
            if not f.endswith(".py"):
                continue
            path = os.path.join(root, f)
            rel = os.path.relpath(path, repo)
            src = open(path).read()
            tree = ast.parse(src)
            for k, (qn, fn) in enumerate(_qualnames(tree)):
                for tn, tf in TRANSFORMS.items():
                    t2 = copy.deepcopy(tree)
                    fn2 = [x for _, x in _qualnames(t2)][k]
                    try:
                        if not tf(fn2):
                            continue
                        ast.fix_missing_locations(t2)
                        new = ast.unparse(t2)
                        compile(new, path, "exec", dont_inherit=True)
                    except Exception:
                        continue
                    out.append((f"{rel}:{qn}:{tn}", rel, tn, new))
    return out


def _run(args) -> Dict:
    vid, rel, tn, src, repo = args
    tmp = tempfile.mkdtemp(prefix="mverif-rf-")
    try:
        shutil.copytree(os.path.join(repo, PACKAGE), os.path.join(tmp, PACKAGE), ignore=shutil.ignore_patterns("__pycache__"))
        with open(os.path.join(tmp, rel), "w") as f:
            f.write(src)
        from ..loader import AnalysisError
        from ..rules.base import Ctx
        from ..report import load_known
        from .. import props
        known = {k["key"] for k in load_known() if k.get("status") == "known"}
        fired, unknown = [], []
        try:
            ctx = Ctx(Program(tmp))
            for r in sorted(props.RULE_MODULES, key=lambda r: int(r[1:])):
                try:
                    col = props.rule_module(r).run(ctx)
                    mi = getattr(props.rule_module(r), "MIN_INSTANCES", 0)
                    if len(col.obs) < mi:
                        unknown.append(f"{r}: {len(col.obs)} instances < {mi}")
                    for o in col.obs:
                        if o.verdict == "violated" and o.key not in known:
                            fired.append(f"{o.oid} {o.func}: {o.detail[:160]}")
                        elif o.verdict == "unknown":
                            unknown.append(f"{o.oid} {o.func}: {o.detail[:160]}")
                except AnalysisError as e:
                    unknown.append(f"{r}: {str(e)[:160]}")
                except Exception as e:  # noqa: BLE001
                    unknown.append(f"{r}: CRASH {type(e).__name__} {str(e)[:120]}")
        except AnalysisError as e:
            unknown.append(str(e)[:160])
        return {"id": vid, "transform": tn, "fired": fired[:4], "unknown": unknown[:4]}
    finally:
        shutil.rmtree(tmp, ignore_errors=True)


def analyse(repo: str = REPO, limit: Optional[int] = None, seed: int = 0, jobs: int = 16) -> List[Dict]:
    vs = generate(repo)
    random.Random(seed).shuffle(vs)
    if limit is not None:
        vs = vs[:limit]
    with ProcessPoolExecutor(max_workers=jobs) as ex:
        return list(ex.map(_run, [v + (repo,) for v in vs], chunksize=4))


def main(argv: List[str]) -> int:
    limit = int(argv[0]) if argv and argv[0].isdigit() else None
    res = analyse(limit=limit)
    bad = [r for r in res if r["fired"] or r["unknown"]]
    by = {}
    for r in res:
        by.setdefault(r["transform"], [0, 0])
        by[r["transform"]][0] += 1
        by[r["transform"]][1] += 1 if (r["fired"] or r["unknown"]) else 0
    print(json.dumps({"variants": len(res), "not_silent": len(bad), "by_transform": by}))
    for r in bad:
        print(("FALSE-ALARM " if r["fired"] else "NO-VERDICT  ") + r["id"])
        for l in r["fired"] + r["unknown"]:
            print("      ", l)
    if limit is None:
        summ = os.path.join(os.path.dirname(os.path.dirname(os.path.dirname(os.path.abspath(__file__)))), "refactorings", "refacfuzz_last.json")
        json.dump({"variants": len(res), "not_silent": len(bad), "by_transform": by}, open(summ, "w"))
    return 1 if bad else 0


if __name__ == "__main__":
    sys.exit(main(sys.argv[1:]))
