"""Developer aid: apply one variant to a scratch copy and print the rule output."""
import os, shutil, sys, tempfile
from .corpus import V
from .harness import _apply
from ..loader import REPO, PACKAGE, Program
from ..rules.base import Ctx
from .. import props

vid = sys.argv[1]
v = [x for x in V if x.vid == vid][0]
tmp = tempfile.mkdtemp(prefix="mverif-show-")
try:
    shutil.copytree(os.path.join(REPO, PACKAGE), os.path.join(tmp, PACKAGE), ignore=shutil.ignore_patterns("__pycache__"))
    print(_apply(tmp, v))
    ctx = Ctx(Program(tmp))
    for r in v.rules:
        for o in props.rule_module(r).run(ctx).obs:
            if o.verdict != "discharged" or "-a" in sys.argv:
                print(o.verdict, o.line())
    if "--dump" in sys.argv:
        from ..flow import summarise
        from .. import terms as T
        for qn in sys.argv[sys.argv.index("--dump")+1:]:
            s = summarise(ctx.prog, ctx.prog.func(qn))
            for e in s.events:
                print(e.idx, e.kind, T.show(e.term)[:200], "IF", [T.show_guard(g)[:150] for g in e.guards])
finally:
    shutil.rmtree(tmp, ignore_errors=True)
