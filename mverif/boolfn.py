"""Finite Boolean abstraction of guard terms: evaluate a condition term under an assignment of
truth values to *atoms* (canonical comparison terms / flags), enumerate all assignments.

Used where a property clause only depends on how a handful of comparisons are combined
(`needs_to_pass and t > x`, the OutSet algebra, rejection tables): the rule names the atoms, the
function's guarded returns / raises are folded into a decision table, and the table is compared
with the required one for *every* assignment.  No solver, no execution: the table has 2^k rows.
"""
from __future__ import annotations

import itertools
from typing import Any, Callable, Dict, Iterable, List, Optional, Sequence, Tuple

from . import terms as T
from .terms import Term


class NotBoolean(Exception):
    pass


def evaluate(t: Term, atoms: Dict[Term, bool], truthy: Optional[Callable[[Term], Optional[bool]]] = None) -> bool:
    t = T.strip(t)
    if t in atoms:
        return atoms[t]
    k = t[0]
    if k == "const":
        return bool(t[1])
    if k == "not":
        return not evaluate(t[1], atoms, truthy)
    if k == "and":
        return all(evaluate(x, atoms, truthy) for x in t[1])
    if k == "or":
        return any(evaluate(x, atoms, truthy) for x in t[1])
    if k == "cmp":
        n = T.negate(t)
        if n in atoms:
            return not atoms[n]
        # `x is None` / `x is not None`
    if k == "ifexp":
        return evaluate(t[2], atoms, truthy) if evaluate(t[1], atoms, truthy) else evaluate(t[3], atoms, truthy)
    if truthy is not None:
        v = truthy(t)
        if v is not None:
            return v
    raise NotBoolean(T.show(t))


def guards_hold(guards: Sequence[Term], atoms: Dict[Term, bool], truthy=None) -> bool:
    for g in guards:
        v = evaluate(g[1], atoms, truthy)
        if v != g[2]:
            return False
    return True


def assignments(atom_terms: Sequence[Term], constraint: Optional[Callable[[Dict[Term, bool]], bool]] = None) -> Iterable[Dict[Term, bool]]:
    for vals in itertools.product([False, True], repeat=len(atom_terms)):
        a = dict(zip(atom_terms, vals))
        if constraint is None or constraint(a):
            yield a


def first_exit(exits: Sequence[Tuple[Sequence[Term], Any]], atoms: Dict[Term, bool], truthy=None) -> Any:
    """`exits` = [(guards, outcome)] in program order; the outcome of the first exit whose
    guard context holds (guards of later exits already contain the negations of earlier
    early-exit tests, so order only matters for robustness)."""
    for guards, outcome in exits:
        if guards_hold(guards, atoms, truthy):
            return outcome
    return None


# ----------------------------------------------------------------------------- canonical leaves
def _counted(y: Any):
    """A number that counts conditions: `sum(<boolean> for ...)` over explicit elements, or the length of a
    collection of explicit, conditionally included elements -> [(guards, boolean value or None)]."""
    y = T.strip(y)
    if not T.is_term(y):
        return None
    if y[0] == "agg" and y[1] == "sum" and not y[3] and all(not e[3] for e in y[2][1]):
        return [(e[2], e[1]) for e in y[2][1]]
    if y[0] == "call" and y[1] == ("glob", "len") and len(y[2]) == 1 and not y[3]:
        b = T.strip(y[2][0])
        if T.is_term(b) and b[0] == "bag" and b[1] and all(not e[3] and T.strip(e[1])[0] != "star" for e in b[1]) and any(e[2] for e in b[1]):
            return [(e[2], None) for e in b[1]]
    return None


def canon_leaf(t: Term) -> Tuple[Term, bool]:
    """Atomic condition -> (canonical leaf, polarity).  `a <= b` is `not (b < a)`, `!=` is
    `not ==`, `not in` is `not in`, `is not` is `not is`."""
    t = T.strip(t)
    if t[0] == "not":
        l, p = canon_leaf(t[1])
        return l, not p
    if t[0] == "call" and t[1] == ("glob", "bool") and len(t[2]) == 1:
        return canon_leaf(t[2][0])
    if t[0] == "call" and t[1] == ("glob", "len") and len(t[2]) == 1:
        return t[2][0], True          # truthiness of len(x) is truthiness of x
    if t[0] == "cmp":
        op, a, b = t[1], t[2], t[3]
        # emptiness tests: len(x) == 0, len(x) > 0, len(x) >= 1, len(x) != 0, 0 < len(x)
        def _len(x):
            return x[2][0] if x[0] == "call" and x[1] == ("glob", "len") and len(x[2]) == 1 else None
        la, lb = _len(a), _len(b)
        if la is not None and b[0] == "const" and b[1] in (0, 1):
            k = b[1]
            if (op, k) in (("==", 0), ("<", 1), ("<=", 0)):
                return la, False
            if (op, k) in (("!=", 0),):
                return la, True
        if lb is not None and a[0] == "const" and a[1] in (0, 1):
            k = a[1]
            if (op, k) in (("==", 0),):
                return lb, False
            if (op, k) in (("<", 0), ("<=", 1), ("!=", 0)):
                return lb, True
        if op == "<":
            return ("cmp", "<", a, b), True
        if op == "<=":
            return ("cmp", "<", b, a), False
        if op == "==":
            return T.canon_cmp("==", a, b), True
        if op == "!=":
            return T.canon_cmp("==", a, b), False
        if op == "in":
            return t, True
        if op == "notin":
            return ("cmp", "in", a, b), False
        if op in ("is", "isnot"):
            # `d.get(k, SENTINEL) is SENTINEL` (a module-level marker object) is `k not in d`
            for x, y in ((a, b), (b, a)):
                if x[0] == "call" and x[1][0] == "attr" and x[1][2] == "get" and len(x[2]) == 2 and x[2][1] == y and y[0] == "glob":
                    return ("cmp", "in", x[2][0], x[1][1]), op == "isnot"
        if op == "is":
            return t, True
        if op == "isnot":
            return ("cmp", "is", a, b), False
    return t, True


def _optional(x: Term) -> bool:
    x = T.strip(x)
    return x[0] in ("ifexp", "phi") and T.NONE in (T.strip(x[2]), T.strip(x[3]))


def distribute(t: Term) -> Term:
    """A comparison with a conditional operand is the conditional of the comparisons
    (`(a if c else None) is None` is `(a is None) if c else True`)."""
    t = T.strip(t)
    if t[0] == "cmp" and t[1] in ("is", "isnot") and T.NONE in (t[2], t[3]):
        for k in (2, 3):
            x = T.strip(t[k])
            if x[0] in ("ifexp", "phi"):
                mk = lambda y: ("cmp", t[1], y, t[3]) if k == 2 else ("cmp", t[1], t[2], y)  # noqa: E731
                return ("ifexp", x[1], distribute(mk(x[2])), distribute(mk(x[3])))
        if t[1] in ("is", "isnot") and t[2][0] == "const" and t[3][0] == "const":
            return ("const", (t[2][1] is t[3][1]) == (t[1] == "is"))
    return t


def leaves(t: Term, truthy=None) -> List[Term]:
    """Canonical leaves of a condition (through and/or/not/ifexp)."""
    out: List[Term] = []

    def walk(x: Term) -> None:
        x = distribute(x)
        if x[0] == "const" or x == TRY_MERGE:
            return
        if x[0] == "not":
            walk(x[1])
        elif x[0] in ("and", "or"):
            for y in x[1]:
                walk(y)
        elif x[0] in ("ifexp", "phi"):
            walk(x[1]); walk(x[2]); walk(x[3])
        elif x[0] == "call" and x[1] == ("glob", "bool") and len(x[2]) == 1 and not x[3]:
            walk(x[2][0])
        elif x[0] == "bag" and all(not e[3] for e in x[1]):
            for e in x[1]:
                for g in e[2]:
                    walk(g[1])
        elif x[0] == "cmp" and any(_optional(x[i]) for i in (2, 3)):
            i = 2 if _optional(x[2]) else 3
            y = T.strip(x[i])
            walk(y[1])
            for br in (y[2], y[3]):
                if T.strip(br) != T.NONE:
                    walk(("cmp", x[1], br, x[3]) if i == 2 else ("cmp", x[1], x[2], br))
        elif x[0] == "cmp" and any(_counted(y) is not None for y in (x[2], x[3])) \
                and all(_counted(y) is not None or T.strip(y)[0] == "const" for y in (x[2], x[3])):
            for y in (x[2], x[3]):
                for gs, v in (_counted(y) or ()):
                    for g in gs:
                        walk(g[1])
                    if v is not None:
                        walk(v)
        else:
            if truthy is not None and truthy(x) is not None:
                return
            l, _ = canon_leaf(x)
            if l not in out:
                out.append(l)

    walk(t)
    return out


TRY_MERGE = ("unknown", "try-merge")


def resolve_phi(t: Any, assign: Dict[Term, bool], truthy=None) -> Any:
    """Resolve phi / ifexp nodes whose conditions are decided by the assignment."""
    if not isinstance(t, tuple) or not t:
        return t
    t = T.strip(t) if T.is_term(t) else t
    if T.is_term(t) and t[0] in ("phi", "ifexp"):
        try:
            return resolve_phi(t[2] if eval_leaves(t[1], assign, truthy) else t[3], assign, truthy)
        except NotBoolean:
            pass
    return tuple(resolve_phi(x, assign, truthy) if isinstance(x, tuple) else x for x in t)


def eval_leaves(t: Term, assign: Dict[Term, bool], truthy=None) -> bool:
    t = distribute(t)
    k = t[0]
    if t == TRY_MERGE:
        return True          # the no-exception path of a try statement (handlers are analysed on their own)
    if k == "const":
        return bool(t[1])
    if k == "not":
        return not eval_leaves(t[1], assign, truthy)
    if k == "and":
        return all(eval_leaves(x, assign, truthy) for x in t[1])
    if k == "or":
        return any(eval_leaves(x, assign, truthy) for x in t[1])
    if k in ("ifexp", "phi"):
        return eval_leaves(t[2], assign, truthy) if eval_leaves(t[1], assign, truthy) else eval_leaves(t[3], assign, truthy)
    if k == "call" and t[1] == ("glob", "bool") and len(t[2]) == 1 and not t[3]:
        return eval_leaves(t[2][0], assign, truthy)
    if k == "bag" and all(not e[3] for e in t[1]):
        # truthiness of a collection built from guarded elements: non-empty iff some guard holds
        return any(all(eval_leaves(g[1], assign, truthy) == g[2] for g in e[2]) for e in t[1])
    if truthy is not None:
        v = truthy(t)
        if v is not None:
            return v
    if k == "cmp" and any(_optional(t[i]) for i in (2, 3)):
        # a comparison with an operand that is `x if c else None`: decide the condition, compare with the chosen branch
        i = 2 if _optional(t[2]) else 3
        x = T.strip(t[i])
        chosen = x[2] if eval_leaves(x[1], assign, truthy) else x[3]
        return eval_leaves(("cmp", t[1], chosen, t[3]) if i == 2 else ("cmp", t[1], t[2], chosen), assign, truthy)
    if k == "cmp" and t[1] in ("<", "<=", "==", "!="):
        # counting conditions: sum(<boolean> for ...) compared with a number
        def num(x):
            x = T.strip(x)
            if x[0] == "const" and isinstance(x[1], int) and not isinstance(x[1], bool):
                return x[1]
            cn = _counted(x)
            if cn is not None:
                return sum(1 for gs, v in cn if all(eval_leaves(g[1], assign, truthy) == g[2] for g in gs) and (v is None or eval_leaves(v, assign, truthy)))
            return None
        na, nb = num(t[2]), num(t[3])
        if na is not None and nb is not None and (_counted(t[2]) is not None or _counted(t[3]) is not None):
            return {"<": na < nb, "<=": na <= nb, "==": na == nb, "!=": na != nb}[t[1]]
    l, p = canon_leaf(t)
    if l not in assign:
        raise NotBoolean(T.show(t))
    return assign[l] == p


def guards_hold_leaves(guards: Sequence[Term], assign: Dict[Term, bool], truthy=None) -> bool:
    return all(eval_leaves(g[1], assign, truthy) == g[2] for g in guards)


def order_closure(ls: Sequence[Term]) -> Tuple[List[Term], Callable[[Dict[Term, bool]], bool]]:
    """Add the missing members of {a<b, b<a, a==b} for every compared pair and return the
    trichotomy constraint (exactly one of the three holds)."""
    out = list(ls)
    triples = []
    seen = set()
    for l in list(ls):
        if l[0] == "cmp" and l[1] in ("<", "=="):
            a, b = l[2], l[3]
            key = frozenset([a, b])
            if key in seen or a == b:
                continue
            seen.add(key)
            tri = [("cmp", "<", a, b), ("cmp", "<", b, a), T.canon_cmp("==", a, b)]
            # only numeric-looking pairs: skip == against string/None constants
            if l[1] == "==" and not any(x in ls for x in tri[:2]):
                continue
            for x in tri:
                if x not in out:
                    out.append(x)
            triples.append(tri)

    def ok(a: Dict[Term, bool]) -> bool:
        return all(sum(1 for x in tri if a[x]) == 1 for tri in triples)

    return out, ok
