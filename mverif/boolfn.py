"""Finite Boolean abstraction of guard terms: evaluate a condition term under an assignment of
truth values to *atoms* (canonical comparison terms / flags), enumerate all assignments.

Used where a property clause only depends on how a handful of comparisons are combined
(`needs_to_pass and t > x`, the OutSet algebra, rejection tables): the rule names the atoms, the
function's guarded returns / raises are folded into a decision table, and the table is compared
with the required one for *every* assignment.  No solver, no execution: the table has 2^k rows.
"""
from __future__ import annotations

import itertools
from typing import Any, Callable, Dict, Iterable, List, Optional, Sequence, Tuple

from . import terms as T
from .terms import Term


class NotBoolean(Exception):
    pass


def evaluate(t: Term, atoms: Dict[Term, bool], truthy: Optional[Callable[[Term], Optional[bool]]] = None) -> bool:
    t = T.strip(t)
    if t in atoms:
        return atoms[t]
    k = t[0]
    if k == "const":
        return bool(t[1])
    if k == "not":
        return not evaluate(t[1], atoms, truthy)
    if k == "and":
        return all(evaluate(x, atoms, truthy) for x in t[1])
    if k == "or":
        return any(evaluate(x, atoms, truthy) for x in t[1])
    if k == "cmp":
        n = T.negate(t)
        if n in atoms:
            return not atoms[n]
        # `x is None` / `x is not None`
    if k == "ifexp":
        return evaluate(t[2], atoms, truthy) if evaluate(t[1], atoms, truthy) else evaluate(t[3], atoms, truthy)
    if truthy is not None:
        v = truthy(t)
        if v is not None:
            return v
    raise NotBoolean(T.show(t))


def guards_hold(guards: Sequence[Term], atoms: Dict[Term, bool], truthy=None) -> bool:
    for g in guards:
        v = evaluate(g[1], atoms, truthy)
        if v != g[2]:
            return False
    return True


def assignments(atom_terms: Sequence[Term], constraint: Optional[Callable[[Dict[Term, bool]], bool]] = None) -> Iterable[Dict[Term, bool]]:
    for vals in itertools.product([False, True], repeat=len(atom_terms)):
        a = dict(zip(atom_terms, vals))
        if constraint is None or constraint(a):
            yield a


def first_exit(exits: Sequence[Tuple[Sequence[Term], Any]], atoms: Dict[Term, bool], truthy=None) -> Any:
    """`exits` = [(guards, outcome)] in program order; the outcome of the first exit whose
    guard context holds (guards of later exits already contain the negations of earlier
    early-exit tests, so order only matters for robustness)."""
    for guards, outcome in exits:
        if guards_hold(guards, atoms, truthy):
            return outcome
    return None
