"""Command line:  /venv/bin/python -m mverif check <ID> [--tier quick|thorough]
                   /venv/bin/python -m mverif rule <Rn>            (developer: list obligations)
                   /venv/bin/python -m mverif replay <path>
Exit codes: 0 all obligations discharged (known findings are printed), 1 violation(s) not listed
in known_findings.json, 2 analysis error / unknown obligation (never a verdict on /repo).
"""
from __future__ import annotations

import argparse
import json
import os
import sys
import time
import traceback
from typing import Dict, List

from .loader import AnalysisError, Program
from . import props, report
from .report import DISCHARGED, VIOLATED, UNKNOWN, Obligation
from .rules.base import Ctx

_RULE_CACHE: Dict[str, object] = {}


def run_rule(ctx: Ctx, rule: str):
    if rule not in _RULE_CACHE:
        mod = props.rule_module(rule)
        try:
            col = mod.run(ctx)
            mn = getattr(mod, "MIN_INSTANCES", 1)
            if len(col.obs) < mn:
                raise AnalysisError(f"rule {rule} matched {len(col.obs)} instances, fewer than the {mn} confirmed by hand: the rule went vacuous")
        except AnalysisError as e:
            # no verdict from this rule: recorded as an unknown obligation of every property that
            # uses it (exit 2 unless another rule reports a violation, which dominates)
            col = report.Collector(rule)
            col.unk("", "mosaik.*", f"rule {rule} could not be applied", str(e), "")
            col.obs[0].oid = rule + "/"
            col.fatal = True
        _RULE_CACHE[rule] = col
    return _RULE_CACHE[rule]


def _print(*a) -> None:
    try:
        print(*a)
    except BrokenPipeError:      # reader went away (| head): the verdict is the exit code
        try:
            sys.stdout = open(os.devnull, "w")
        except Exception:
            pass


def check(prop: str, tier: str, seed: int, repo: str | None = None, write: bool = True) -> int:
    t0 = time.time()
    prog = Program(repo) if repo else Program()
    ctx = Ctx(prog)
    rules = props.rules_for(prop)
    if not rules:
        raise AnalysisError(f"no rules registered for {prop}")
    obs: List[Obligation] = []
    per_rule = {}
    for r in rules:
        col = run_rule(ctx, r)
        sel = [o for o in col.obs if props.selected(prop, o.oid) or getattr(col, "fatal", False)]
        per_rule[r] = {"instances": len(sel), "discharged": sum(o.verdict == DISCHARGED for o in sel)}
        per_rule[r].update(col.info)
        obs += sel
    extra_obs: List[Obligation] = []
    selftest = None
    if tier == "thorough":
        from . import thorough
        extra_obs, selftest = thorough.run(prop, ctx, seed)
        obs += extra_obs
    known = report.load_known()
    violations: List[Obligation] = []
    knowns: List[Obligation] = []
    unknowns: List[Obligation] = []
    for o in obs:
        if o.verdict == VIOLATED:
            if report.known_match(o, prop, known) is not None:
                knowns.append(o)
            else:
                violations.append(o)
        elif o.verdict == UNKNOWN:
            unknowns.append(o)
    _print(f"[mverif] property {prop} tier={tier}: {prog.stats()} rules={','.join(rules)} "
          f"obligations={len(obs)} discharged={sum(o.verdict == DISCHARGED for o in obs)} "
          f"known={len(knowns)} violated={len(violations)} unknown={len(unknowns)}")
    for o in obs:
        if o.verdict == DISCHARGED:
            _print("  ok   " + o.line())
    for o in knowns:
        k = report.known_match(o, prop, known)
        _print(f"KNOWN-FINDING: property={prop} {k.get('id', '')} {o.oid} {o.func}: {o.construct} -- {o.detail}")
    for k in known:
        # genuine defects that were demonstrated against the real code but that no rule of this family decides
        # (scenario-level liveness): listed so that they are not forgotten, they suppress nothing
        if k.get("status") == "known" and k.get("report_always") and prop in k.get("properties", [k.get("property")]):
            _print(f"KNOWN-FINDING: property={prop} {k.get('id', '')} (demonstrated, not decided by a rule) {k['what']}")
    for o in unknowns:
        _print(f"ANALYSIS-ERROR: property={prop} {o.line()}")
    for o in violations:
        path = report.write_replay(prop, o)
        _print(f"VIOLATION property={prop} replay={path}")
        _print("  " + o.line())
    if write:
        cov = {
            "explanation": props.EXPLANATION.get(prop, "") or (
                "Static analysis of /repo's current source (ast -> normalised dataflow terms, CFG, truth tables). "
                "Decides the structural obligations listed under 'rules' for this property on all paths of the anchored "
                "functions; it does not decide the behaviour over executions."),
            "units": prog.stats(),
            "rules": per_rule,
            "files": prog.digest(),
            "checker_cmd": f"/venv/bin/python -m mverif check {prop} --tier {tier}",
            "trusted_base": ["CPython 3.12 ast/compile/symtable", "/verif/mverif (kit and rule tables)", "networkx (graph reachability)"],
            "known_findings": [o.key for o in knowns],
            "unknown": [o.key for o in unknowns],
        }
        if selftest is not None:
            cov["automut"] = selftest.pop("automut", None)
            cov["selftest"] = selftest
        report.write_evidence(prop, tier, seed, obs, cov, props.ASSUMPTIONS_COMMON + props.ASSUMPTIONS.get(prop, []) if hasattr(props, "ASSUMPTIONS") else props.ASSUMPTIONS_COMMON,
                              time.time() - t0, len(violations))
    if violations:
        return 1
    if unknowns:
        return 2
    if selftest is not None and selftest.get("failed"):
        _print(f"ANALYSIS-ERROR: property={prop} checker self-test failed: {selftest['failed']}")
        return 2
    return 0


def main(argv: List[str]) -> int:
    ap = argparse.ArgumentParser(prog="mverif")
    sub = ap.add_subparsers(dest="cmd", required=True)
    c = sub.add_parser("check")
    c.add_argument("prop")
    c.add_argument("--tier", default=os.environ.get("VERIF_TIER", "quick"), choices=["quick", "thorough"])
    c.add_argument("--repo", default=None)
    c.add_argument("--no-evidence", action="store_true")
    r = sub.add_parser("rule")
    r.add_argument("rule")
    r.add_argument("--repo", default=None)
    a = sub.add_parser("all")
    a.add_argument("--repo", default=None)
    a.add_argument("--tier", default="quick")
    rp = sub.add_parser("replay")
    rp.add_argument("path")
    args = ap.parse_args(argv)
    seed = int(os.environ.get("VERIF_SEED", "0") or 0)
    try:
        if args.cmd == "check":
            return check(args.prop, args.tier, seed, args.repo, write=not args.no_evidence)
        if args.cmd == "rule":
            prog = Program(args.repo) if args.repo else Program()
            col = run_rule(Ctx(prog), args.rule)
            for o in col.obs:
                print(f"{o.verdict:10s} {o.line()}")
            print(col.info)
            return 1 if any(o.verdict == VIOLATED for o in col.obs) else 2 if any(o.verdict == UNKNOWN for o in col.obs) else 0
        if args.cmd == "all":
            rc = 0
            for p in sorted(props.PROPERTY_RULES):
                _RULE_CACHE.clear()
                rc = max(rc, check(p, args.tier, seed, args.repo, write=False))
            return rc
        if args.cmd == "replay":
            with open(args.path) as f:
                rec = json.load(f)
            prop = rec["property"]
            key = rec["key"]
            prog = Program()
            ctx = Ctx(prog)
            hit = False
            for rl in props.rules_for(prop):
                for o in run_rule(ctx, rl).obs:
                    if o.key == key:
                        print(o.line())
                        hit = hit or o.verdict == VIOLATED
            print("still violated" if hit else "not violated on the current tree")
            return 1 if hit else 0
    except AnalysisError as e:
        print(f"ANALYSIS-ERROR: {e}")
        return 2
    except Exception:
        print("ANALYSIS-ERROR: internal error in the checker\n" + traceback.format_exc())
        return 2
    return 0


if __name__ == "__main__":
    sys.exit(main(sys.argv[1:]))
