# debug mode + grouped simulators + async_requests connection: _debug.pre_step mixes tier lengths
import sys, warnings; sys.path.insert(0, '/tmp/exp'); warnings.simplefilter('ignore')
import mosaik, asim
from loguru import logger; logger.remove()
dbg = sys.argv[1] == 'debug'
w = mosaik.World({'S': {'python': 'asim:ASim'}}, skip_greetings=True, debug=dbg)
with w.group():
    a = w.start('S', sim_id='A', step_type='time-based').A()
    b = w.start('S', sim_id='B', step_type='time-based').A()
w.connect(a, b, ('val_out', 'val_in'), async_requests=True)
try:
    w.run(until=3, print_progress=False)
    print("run returned", [l[1:3] for l in asim.LOG if l[0]=='begin'])
except BaseException as ex:
    print("EXC", type(ex).__name__, ex)
