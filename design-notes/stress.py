import sys, random, copy, asyncio, traceback, warnings
sys.path.insert(0, '/tmp/exp')
import mosaik, asim
from mosaik.exceptions import ScenarioError
from loguru import logger; logger.remove()
warnings.simplefilter('ignore')

WEAK = False
def gen(rng):
    n = rng.randint(2, 4)
    sims = []
    ngroups = rng.choice([0, 0, 1, 2])
    for i in range(n):
        typ = rng.choice(['time-based', 'event-based', 'hybrid'])
        grp = rng.randint(0, ngroups) if ngroups else 0   # 0 = root
        until = 6
        self_steps = {}
        if typ != 'time-based':
            t = 0
            while t < until and rng.random() < 0.7:
                nt = t + rng.randint(1, 3); self_steps[t] = nt; t = nt
        output_timing = None
        if typ == 'event-based' and rng.random() < 0.6:
            output_timing = {t: t + rng.choice([0, 0, 0, 1, 2]) for t in range(until) if rng.random() < 0.7}
        sims.append(dict(sid=f"S{i}", typ=typ, grp=grp, step_size=rng.randint(1, 3), self_steps=self_steps,
                         output_timing=output_timing, init_event=(typ == 'event-based' and rng.random() < 0.7)))
    conns = []
    for _ in range(rng.randint(1, 5)):
        a, b = rng.sample(range(n), 2)
        kind = rng.choice(['plain', 'plain', 'shift', 'weak'] if WEAK else ['plain','plain','shift'])
        if kind == 'weak' and not (sims[a]['grp'] == sims[b]['grp'] != 0): kind = 'shift'
        dattr = rng.choice(['val_in', 'trigger_in'])
        if sims[b]['typ'] == 'time-based': dattr = 'val_in'
        if any(c[0] == a and c[1] == b and c[3] == dattr for c in conns): continue
        conns.append((a, b, kind, dattr))
    return sims, conns

def build(spec, cache, delays):
    sims, conns = spec
    w = mosaik.World({'S': {'python': 'asim:ASim'}}, skip_greetings=True, cache=cache)
    ents = {}
    def start(s):
        trig = ['trigger_in'] if s['typ'] != 'time-based' else None
        kw = dict(step_type=s['typ'], step_size=s['step_size'], self_steps=s['self_steps'],
                  output_timing=copy.deepcopy(s['output_timing']), delay=delays.get(s['sid'], 0))
        if s['typ'] == 'hybrid': kw['trigger'] = ['trigger_in']

        return w.start('S', sim_id=s['sid'], **kw).A()
    groups = sorted({s['grp'] for s in sims})
    for g in groups:
        if g == 0:
            for s in sims:
                if s['grp'] == 0: ents[s['sid']] = start(s)
        else:
            with w.group():
                for s in sims:
                    if s['grp'] == g: ents[s['sid']] = start(s)
    for a, b, kind, dattr in conns:
        sa, sb = sims[a], sims[b]
        if sb['typ'] == 'time-based': dattr = 'val_in'
        kw = {}
        if kind == 'shift': kw = dict(time_shifted=True, initial_data={'val_out': -1})
        if kind == 'weak': kw = dict(weak=True, initial_data={'val_out': -1})
        w.connect(ents[sa['sid']], ents[sb['sid']], ('val_out', dattr), **kw)
    for s in sims:
        if s['init_event']: w.set_initial_event(s['sid'], 0)
    return w

def run(spec, cache, lazy, delays):
    asim.LOG.clear()
    w = build(spec, cache, delays)
    try:
        w.run(until=6, print_progress=False, lazy_stepping=lazy)
        res = 'ok'
    except ScenarioError as e:
        res = 'scenario-error'
        w.shutdown()
    except BaseException as e:
        res = f'EXC {type(e).__name__}: {str(e)[:120]}'
    per = {}
    for l in asim.LOG:
        if l[0] == 'begin': per.setdefault(l[1], []).append((l[2], l[3]))
    return res, per

def main(seed0, count):
    bad = 0
    for seed in range(seed0, seed0 + count):
        rng = random.Random(seed)
        spec = gen(rng)
        ref = run(spec, True, True, {})
        if ref[0] == 'scenario-error': continue
        for trial in range(3):
            delays = {s['sid']: rng.choice([0, 0.0005, 0.002, 0.004]) for s in spec[0]}
            cache = rng.random() < 0.5; lazy = rng.random() < 0.5
            got = run(spec, cache, lazy, delays)
            if got != ref:
                bad += 1
                print(f"seed={seed} trial={trial} cache={cache} lazy={lazy} delays={delays}")
                print("  ref:", ref[0]); print("  got:", got[0])
                if ref[0] == got[0]:
                    for sid in sorted(set(ref[1]) | set(got[1])):
                        if ref[1].get(sid) != got[1].get(sid):
                            print("   ", sid, "ref", ref[1].get(sid)); print("   ", sid, "got", got[1].get(sid))
                print("  spec:", spec)
                break
    print("done, discrepancies:", bad)
main(int(sys.argv[1]), int(sys.argv[2]))
