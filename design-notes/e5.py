# D5: slow producer A (step 10) -> time-shifted persistent input of fast consumer B (step 1), cache on.
import sys; sys.path.insert(0, '/tmp/exp')
import mosaik, asim
from loguru import logger; logger.remove()
cache = sys.argv[1] == 'cache'
w = mosaik.World({'S': {'python': 'asim:ASim'}}, skip_greetings=True, cache=cache)
a = w.start('S', sim_id='A', step_type='time-based', step_size=5).A()
b = w.start('S', sim_id='B', step_type='time-based', step_size=1, delay=float(sys.argv[2])).A()
w.connect(a, b, ('val_out', 'val_in'), time_shifted=True, initial_data={'val_out': -1})
try:
    w.run(until=12, print_progress=False)
    print("run returned")
except BaseException as e:
    print("EXC", type(e).__name__, e)
for l in asim.LOG:
    if l[0]=='begin' and l[1]=='B': print(l[2], l[3])
