import sys, os, copy
import mosaik_api_v3
META = {'api_version': '3.0', 'type': 'time-based',
        'models': {'A': {'public': True, 'params': [], 'attrs': ['val_in', 'val_out']}}}
class RSim(mosaik_api_v3.Simulator):
    def __init__(self): super().__init__(copy.deepcopy(META))
    def init(self, sid, time_resolution, bogus_at=None):
        self.sid=sid; self.bogus_at=bogus_at; self.ents=[]; return self.meta
    def create(self, num, model):
        n=len(self.ents); new=[str(i) for i in range(n,n+num)]; self.ents+=new
        return [{'eid': e, 'type': model} for e in new]
    def step(self, time, inputs, max_advance):
        if self.bogus_at is not None and time >= self.bogus_at:
            yield self.mosaik._channel.send(["no_such_method", [], {}])
        self.time=time; return time+1
    def get_data(self, outputs): return {e: {'val_out': self.time} for e in self.ents}
if __name__ == '__main__':
    mosaik_api_v3.start_simulation(RSim())
