# C16 triage: async requests (set_data) under concurrency, on the global begin/end order
import sys, asyncio, copy, random, warnings; sys.path.insert(0, '/tmp/exp'); warnings.simplefilter('ignore')
import mosaik, asim
from loguru import logger; logger.remove()
class Agent(asim.ASim):
    def init(self, sid, time_resolution, step_size=1, delay=0.0, sparse=1, **kw):
        r = super().init(sid, time_resolution, step_type='time-based', step_size=step_size, delay=delay)
        self.sparse = sparse; return r
    def step(self, time, inputs, max_advance):
        asim.LOG.append(('begin', self.sid, time, copy.deepcopy(inputs), max_advance))
        if self.delay: yield asyncio.sleep(self.delay)
        if (time // self.step_size) % self.sparse == 0:
            yield self.mosaik.set_data({f'{self.sid}.0': {'A.0': {'val_in': (self.sid, time)}}})
            asim.LOG.append(('set', self.sid, time))
        if self.delay: yield asyncio.sleep(self.delay)
        asim.LOG.append(('end', self.sid, time)); self.time = time
        return time + self.step_size
asim.Agent = Agent
def run(a_step, agents, delays, lazy):
    asim.LOG.clear()
    w = mosaik.World({'S': {'python': 'asim:ASim'}, 'G': {'python': 'asim:Agent'}}, skip_greetings=True)
    a = w.start('S', sim_id='A', step_type='time-based', step_size=a_step, delay=delays.get('A', 0)).A()
    ents = []
    for i, (st, sp) in enumerate(agents):
        g = w.start('G', sim_id=f'G{i}', step_size=st, sparse=sp, delay=delays.get(f'G{i}', 0)).A()
        w.connect(a, g, ('val_out', 'val_in'), async_requests=True)
    try:
        w.run(until=8, print_progress=False, lazy_stepping=lazy); res = 'ok'
    except BaseException as e: res = f"EXC {type(e).__name__}: {e}"
    return res, list(asim.LOG)
bad = 0
for seed in range(200):
    rng = random.Random(seed)
    a_step = rng.randint(1, 3); agents = [(rng.randint(1, 3), rng.randint(1, 2)) for _ in range(rng.randint(1, 2))]
    delays = {k: rng.choice([0, 0.0005, 0.002]) for k in ['A', 'G0', 'G1']}
    lazy = rng.random() < 0.5
    res, log = run(a_step, agents, delays, lazy)
    probs = []
    if res != 'ok': probs.append(res)
    # every set (G,t) must appear exactly once in A's inputs, in A's first step that begins after the set; and no A step > t begins before G@t ended
    a_begins = [(i, l[2], l[3]) for i, l in enumerate(log) if l[0] == 'begin' and l[1] == 'A']
    for i, l in enumerate(log):
        if l[0] == 'set':
            g, t = l[1], l[2]
            seen = [(ai, at) for ai, at, inp in a_begins if inp.get('0', {}).get('val_in', {}).get(f'{g}.0') in ((g, t), [g, t])]
            nxt = [(ai, at) for ai, at, inp in a_begins if ai > i]
            later_same = [j for j, m in enumerate(log) if j > i and m[0] == 'set' and m[1] == g and (not nxt or j < nxt[0][0])]
            if later_same: continue   # overwritten by a later set of the same agent before A's next step
            if len(seen) != 1 and nxt: probs.append(f"set by {g}@{t} seen {len(seen)} times")
            elif seen and nxt and seen[0] != nxt[0]: probs.append(f"set by {g}@{t} delivered at A@{seen[0][1]} not next A@{nxt[0][1]}")
        if l[0] == 'end' and l[1] != 'A':
            g, t = l[1], l[2]
            for ai, at, inp in a_begins:
                if at > t and ai < i: probs.append(f"A@{at} began before {g}@{t} ended")
    if probs:
        bad += 1; print(seed, a_step, agents, delays, lazy, probs[:3])
print("done; bad:", bad)
