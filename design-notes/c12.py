import itertools
from mosaik.scenario import parse_attrs
from mosaik.in_or_out_set import OutSet
opts = [None, '', 'a', 'b', 'ab']
bad = 0; acc = 0; rej = 0; other = 0
def mem(S, x): return x in S
for typ in ['time-based', 'event-based', 'hybrid']:
  for anyi in [False, True]:
    for attrs, trig, ntrig, pers, npers in itertools.product(opts, repeat=5):
        d = {'public': True, 'params': [], 'any_inputs': anyi}
        for k, v in [('attrs', attrs), ('trigger', trig), ('non-trigger', ntrig), ('persistent', pers), ('non-persistent', npers)]:
            if v is not None: d[k] = list(v)
        try:
            mi, ei, mo, eo = parse_attrs(d, typ)
        except ValueError:
            rej += 1; continue
        except BaseException as e:
            other += 1; print("OTHER EXC", typ, anyi, d, type(e).__name__, e); continue
        acc += 1
        probs = []
        for x in 'abz':  # z = an attribute nobody mentions
            in_universe = True if anyi else (x in (attrs or '') if attrs is not None else (mem(mi, x) or mem(ei, x)))
            if mem(mi, x) and mem(ei, x): probs.append(f"{x} both trigger and non-trigger")
            if (mem(mi, x) or mem(ei, x)) != in_universe: probs.append(f"{x} input membership {mem(mi,x) or mem(ei,x)} != universe {in_universe}")
            if mem(mo, x) and mem(eo, x): probs.append(f"{x} both persistent and non-persistent")
            if attrs is not None and (mem(mo, x) or mem(eo, x)) != (x in attrs): probs.append(f"{x} output membership vs attrs")
            if trig is not None and mem(ei, x) != (x in trig): probs.append(f"{x} trigger list disagreement")
            if ntrig is not None and mem(mi, x) != (x in ntrig): probs.append(f"{x} non-trigger list disagreement")
            if pers is not None and mem(mo, x) != (x in pers): probs.append(f"{x} persistent disagreement")
            if npers is not None and mem(eo, x) != (x in npers): probs.append(f"{x} non-persistent disagreement")
        if typ == 'time-based' and (ei != frozenset() or eo != frozenset()): probs.append("time-based with events")
        if typ == 'event-based' and (mi != frozenset() or mo != frozenset()): probs.append("event-based with measurements")
        if probs:
            bad += 1
            if bad <= 8: print(typ, anyi, d, '->', mi, ei, mo, eo, probs)
print("accepted", acc, "rejected", rej, "other-exc", other, "postcondition failures", bad)
