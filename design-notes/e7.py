# aliasing: entity gets a measurement (persistent, from A) and an event (non-persistent, from E). cache on/off
import sys; sys.path.insert(0, '/tmp/exp')
import mosaik, asim
from loguru import logger; logger.remove()
cache = sys.argv[1] == 'cache'
w = mosaik.World({'S': {'python': 'asim:ASim'}}, skip_greetings=True, cache=cache)
a = w.start('S', sim_id='A', step_type='time-based', step_size=1).A()
e = w.start('S', sim_id='E', step_type='event-based', output_timing={1: 1}, self_steps={}).A()
b = w.start('S', sim_id='B', step_type='hybrid', trigger=['trigger_in'], self_steps={0:1,1:2,2:3}).A()
w.connect(a, b, ('val_out', 'val_in'))
w.connect(e, b, ('val_out', 'trigger_in'))
w.set_initial_event('E', 1)
try:
    w.run(until=4, print_progress=False)
    print("run returned")
except BaseException as ex:
    print("EXC", type(ex).__name__, ex)
for l in asim.LOG:
    if l[0]=='begin' and l[1]=='B': print(l[2], l[3])
