"""D26: SimRunner.get_output_for() returns the *last inserted* cache entry whose time is <= the
requested time, not the newest one: it walks reversed(self.outputs.items()) and relies on the
insertion order of the dict being the time order.  That does not hold
  (a) for the initial data of two time-shifted connections from one source with different shifts
      (connect_one files them under -shift in connection order), and
  (b) for a simulator whose output times are not monotone (a 'time' entry in the future, then an
      earlier one -- allowed as long as it is not before the step).

Run: PYTHONPATH=/repo /venv/bin/python e20_cache_floor_order.py     (exit 1 = defect present)"""
import sys
import mosaik
import mosaik_api_v3


class Src(mosaik_api_v3.Simulator):
    META = {"api_version": "3.0", "type": "time-based", "models": {"M": {"public": True, "params": [], "attrs": ["x"]}}}

    def __init__(self):
        super().__init__(self.META)

    def create(self, num, model):
        return [{"eid": "e", "type": model}]

    def step(self, time, inputs, max_advance):
        self.t = time
        return time + 1

    def get_data(self, outputs):
        return {"e": {"x": 100 + self.t}}


class Sink(mosaik_api_v3.Simulator):
    META = {"api_version": "3.0", "type": "time-based", "models": {"M": {"public": True, "params": [], "attrs": ["x"]}}}
    log = None

    def __init__(self):
        super().__init__(self.META)
        self.seen = {}

    def create(self, num, model):
        return [{"eid": "e", "type": model}]

    def step(self, time, inputs, max_advance):
        self.seen[time] = list(inputs.get("e", {}).get("x", {}).values())
        return time + 1


def run(order):
    world = mosaik.World({"Src": {"python": f"{__name__}:Src"}, "Sink": {"python": f"{__name__}:Sink"}}, cache=True)
    a = world.start("Src").M()
    sinks = {}
    for shift in order:
        s = world.start("Sink")
        sinks[shift] = (s, s.M())
        world.connect(a, sinks[shift][1], "x", time_shifted=shift, initial_data={"x": -shift})
    world.run(until=3, print_progress=False)
    out = {}
    for shift, (s, _) in sinks.items():
        out[shift] = world.sims[s._sid]._proxy.sim.seen if hasattr(world.sims[s._sid]._proxy, "sim") else None
    return out


if __name__ == "__main__":
    bad = []
    res = {}
    for order in ((1, 2), (2, 1)):
        try:
            res[order] = run(order)
        except Exception as ex:  # noqa: BLE001
            res[order] = f"{type(ex).__name__}: {ex}"
    print(res)
    # the shift-1 consumer must see the initial data of its own connection (-1) at t=0 whatever the connection order
    for order, r in res.items():
        if isinstance(r, str):
            bad.append(f"order {order}: {r}")
            continue
        if r[1][0] != [-1]:
            bad.append(f"connected in order {order}: the consumer with time shift 1 gets {r[1][0]} at t=0 instead of its initial data [-1]")
    if res[(1, 2)] != res[(2, 1)] and not any(isinstance(r, str) for r in res.values()):
        bad.append("the inputs depend on the order in which the two connections were made")
    for b in bad:
        print("  ", b)
    print("FAIL" if bad else "PASS")
    sys.exit(1 if bad else 0)
