# D8: time-based sim returning None; D? bool / float next step
import sys; sys.path.insert(0, '/tmp/exp')
import mosaik, asim
from loguru import logger; logger.remove()
class Bad(asim.ASim):
    def step(self, time, inputs, max_advance):
        asim.LOG.append(('begin', self.sid, time))
        return BADVAL
asim.Bad = Bad
for val in [None, 1.0, True, 0, -1, "2"]:
    asim.LOG.clear()
    import builtins; builtins.BADVAL = val
    w = mosaik.World({'S': {'python': 'asim:Bad'}}, skip_greetings=True)
    a = w.start('S', sim_id='A', step_type='time-based').A()
    try:
        w.run(until=3, print_progress=False)
        print(repr(val), "-> run returned", [l[:3] for l in asim.LOG])
    except BaseException as ex:
        print(repr(val), "-> EXC", type(ex).__name__, str(ex)[:100])
