# A (event-based, slow step at 0, in flight) -> B (event-based, triggered). C: independent time-based fast sim
# whose step completion runs advance_progress(B) while A is in flight.
import sys; sys.path.insert(0, '/tmp/exp')
import mosaik, asim
from loguru import logger; logger.remove()
lazy = sys.argv[1] == 'lazy'
w = mosaik.World({'S': {'python': 'asim:ASim'}}, skip_greetings=True)
a = w.start('S', sim_id='A', step_type='event-based', delay=0.05).A()
b = w.start('S', sim_id='B', step_type='event-based').A()
c = w.start('S', sim_id='C', step_type='time-based', delay=0.001).A()
w.connect(a, b, ('val_out', 'val_in'))
w.set_initial_event('A', 0)
try:
    w.run(until=3, print_progress=False, lazy_stepping=lazy)
    print("run returned")
except BaseException as e:
    print("EXC", type(e).__name__, e)
for l in asim.LOG: print(l)
