# D24: real-time mode, two unconnected in-process simulators: the first simulator's process performs its
# whole first step without ever suspending, then calls advance_progress() for the second simulator, whose
# process has not started yet -> AttributeError: 'SimRunner' object has no attribute 'rt_start'
import mosaik, mosaik_api_v3
from loguru import logger; logger.remove()
class S(mosaik_api_v3.Simulator):
    def __init__(self): super().__init__({'api_version': '3.0', 'type': 'time-based', 'models': {'M': {'public': True, 'params': [], 'attrs': ['a']}}})
    def create(self, num, model): return [{'eid': 'e', 'type': model}]
    def step(self, time, inputs, max_advance): return time + 1
    def get_data(self, outputs): return {}
w = mosaik.World({'S': {'python': '__main__:S'}}, skip_greetings=True)
w.start('S').M(); w.start('S').M()
try:
    w.run(until=2, rt_factor=0.05, print_progress=False)
    print('run returned')
except BaseException as e:
    print('EXC', type(e).__name__, e)
