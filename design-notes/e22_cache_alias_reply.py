"""Unmodified tree: with the cache on, mosaik stores the dict returned by an
in-process simulator's get_data() by reference.  A simulator that keeps one
dict for its outputs and updates it in place therefore changes its *old*
cache entries.  A slower consumer then sees data from the future if the
producer may run ahead (lazy_stepping=False); with lazy_stepping=True, with
the cache off, or with a remote producer it sees the right data.

Exits 1 if the runs differ (they do on the unmodified tree)."""
import copy, sys
import mosaik, mosaik_api_v3
from loguru import logger
logger.remove()
TRACES = {}
META = {'api_version': '3.0', 'type': 'time-based',
        'models': {'M': {'public': True, 'params': [], 'attrs': ['val', 'inp']}}}


class Sim(mosaik_api_v3.Simulator):
    def __init__(self):
        super().__init__(copy.deepcopy(META))
        self.out = {'e': {'val': None}}   # reused for every get_data()

    def init(self, sid, time_resolution, step_size=1):
        self.step_size = step_size
        self.trace = TRACES.setdefault(sid, [])
        return self.meta

    def create(self, num, model):
        return [{'eid': 'e', 'type': model}]

    def step(self, time, inputs, max_advance):
        self.time = time
        self.trace.append((time, copy.deepcopy(inputs)))
        return time + self.step_size

    def get_data(self, outputs):
        self.out['e']['val'] = 1000 + self.time
        return self.out


def run(lazy, cache):
    TRACES.clear()
    w = mosaik.World({'Sim': {'python': '__main__:Sim'}}, cache=cache, skip_greetings=True)
    a = w.start('Sim', sim_id='A', step_size=1).M()
    b = w.start('Sim', sim_id='B', step_size=3).M()
    w.connect(a, b, ('val', 'inp'))
    w.run(until=7, print_progress=False, lazy_stepping=lazy)
    return copy.deepcopy(TRACES['B'])


ref = run(True, True)
bad = 0
for lazy in (True, False):
    for cache in (True, False):
        t = run(lazy, cache)
        print('lazy', lazy, 'cache', cache, t)
        bad += t != ref
sys.exit(1 if bad else 0)
