# D18: real-time mode with a simulator inside a group
import sys; sys.path.insert(0, '/tmp/exp')
import mosaik, asim
from loguru import logger; logger.remove()
w = mosaik.World({'S': {'python': 'asim:ASim'}}, skip_greetings=True)
if sys.argv[1] == 'group':
    with w.group():
        a = w.start('S', sim_id='A', step_type='time-based').A()
else:
    a = w.start('S', sim_id='A', step_type='time-based').A()
try:
    w.run(until=3, rt_factor=0.01, print_progress=False)
    print("run returned")
except BaseException as ex:
    print("EXC", type(ex).__name__, ex)
print([l[:3] for l in asim.LOG])
