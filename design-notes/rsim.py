import sys, os, copy
import mosaik_api_v3
META = {'api_version': '3.0', 'type': 'time-based',
        'models': {'A': {'public': True, 'params': [], 'attrs': ['val_in', 'val_out']}}}
class RSim(mosaik_api_v3.Simulator):
    def __init__(self): super().__init__(copy.deepcopy(META))
    def init(self, sid, time_resolution, die_at=None, logfile=None, raise_at=None):
        self.sid=sid; self.die_at=die_at; self.logfile=logfile; self.raise_at=raise_at; self.ents=[]; return self.meta
    def log(self, msg):
        if self.logfile:
            with open(self.logfile, 'a') as f: f.write(f"{self.sid} {msg}\n")
    def create(self, num, model):
        n=len(self.ents); new=[str(i) for i in range(n,n+num)]; self.ents+=new
        return [{'eid': e, 'type': model} for e in new]
    def step(self, time, inputs, max_advance):
        self.log(f"step {time}")
        if self.die_at is not None and time >= self.die_at: os._exit(3)
        if self.raise_at is not None and time >= self.raise_at: raise ValueError("boom")
        self.time=time; return time+1
    def get_data(self, outputs): return {e: {'val_out': self.time} for e in self.ents}
    def finalize(self): self.log("finalize")
if __name__ == '__main__':
    mosaik_api_v3.start_simulation(RSim())
