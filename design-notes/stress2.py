# triage for C10 (lazy bound) and C01 (causal readiness at API boundary) on the global begin/end order
import sys, random; sys.path.insert(0, '/tmp/exp')
import stress, asim
stress.WEAK = False
def check(spec, lazy, cache, delays):
    res, per = stress.run(spec, cache, lazy, delays)
    if res != 'ok': return [f"run: {res}"]
    log = list(asim.LOG)
    sims, conns = spec
    probs = []
    begin_idx = {}; end_idx = {}
    for i, l in enumerate(log):
        if l[0] == 'begin': begin_idx.setdefault((l[1], l[2]), []).append(i)
        if l[0] == 'end': end_idx.setdefault((l[1], l[2]), []).append(i)
    for a, b, kind, dattr in conns:
        A, B = sims[a]['sid'], sims[b]['sid']; shift = 1 if kind == 'shift' else 0
        # C01: when B begins t, every A step with ta + shift <= t must have ended before
        for (sid, t), idxs in begin_idx.items():
            if sid != B: continue
            for (sid2, ta), eidxs in end_idx.items():
                if sid2 == A and ta + shift <= t and max(eidxs) > min(idxs):
                    probs.append(f"C01: {B}@{t} began before {A}@{ta} ended (shift {shift})")
        # C10: when A begins t (lazy), every B step with tb < t must have ended
        if lazy:
            for (sid, t), idxs in begin_idx.items():
                if sid != A: continue
                for (sid2, tb), eidxs in end_idx.items():
                    if sid2 == B and tb < t and max(eidxs) > min(idxs):
                        probs.append(f"C10: {A}@{t} began while consumer {B}@{tb} outstanding")
    return probs
bad = 0
for seed in range(int(sys.argv[1]), int(sys.argv[1]) + int(sys.argv[2])):
    rng = random.Random(seed); spec = stress.gen(rng)
    ref = stress.run(spec, True, True, {})
    if ref[0] != 'ok': continue
    delays = {s['sid']: rng.choice([0, 0.0005, 0.002, 0.004]) for s in spec[0]}
    for lazy in (True, False):
        p = check(spec, lazy, rng.random() < 0.5, delays)
        if p:
            bad += 1; print("seed", seed, "lazy", lazy, p[:3]); print("   ", spec); break
print("done; scenarios with problems:", bad)
