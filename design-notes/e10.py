import sys, os, time; sys.path.insert(0, '/tmp/exp')
import mosaik
from loguru import logger; logger.remove()
mode = sys.argv[1]
log = '/tmp/exp/rlog.txt'
if os.path.exists(log): os.remove(log)
cfg = {'R': {'cmd': '%(python)s /tmp/exp/rsim.py %(addr)s'}, 'L': {'python': 'rsim:RSim'}}
w = mosaik.World(cfg, skip_greetings=True)
kw = {'die_at': 2} if mode == 'die' else {'raise_at': 2}
first = w.start('R', sim_id='X', logfile=log, **kw).A()     # faulty one started FIRST (stopped first)
o1 = w.start('R', sim_id='Y', logfile=log).A()
o2 = w.start('L', sim_id='Z', logfile=log).A()
w.connect(first, o1, ('val_out','val_in'))
t0=time.time()
try:
    w.run(until=5, print_progress=False)
    print("run returned")
except BaseException as ex:
    print("EXC", type(ex).__name__, str(ex)[:200])
print("elapsed", round(time.time()-t0,2), "loop closed:", w.loop.is_closed())
time.sleep(0.5)
print(open(log).read())
os.system("pgrep -fa rsim.py | grep -v pgrep")
