"""
NOT a mutation demo: shows that the UNCHANGED code already violates C05 when a
*triggered* step lies after the end of the simulation.

A1 (event-based, single step at 8) --time_shifted=5, triggering--> B
A2 (hybrid, steps at 0 and 9, slow, never produces output) --triggering--> B

A1's step at 8 schedules B for 13 > until = 10 while A2's step at 9 is still
pending, so B (progress 9) waits for has_reached(13); after A2's last step B's
progress becomes 10 and nothing ever wakes B up again.

Prints "BASELINE DEADLOCK" (exit 1) if run() hangs, "no deadlock" (exit 0)
otherwise.
"""
import asyncio
import os
import sys
import threading

import mosaik
import mosaik_api_v3


class Sim(mosaik_api_v3.Simulator):
    def __init__(self):
        super().__init__({
            'api_version': '3.0',
            'type': 'event-based',
            'models': {
                'M': {'public': True, 'params': [], 'attrs': ['val_in', 'val_out']},
            },
        })

    def init(self, sid, time_resolution, step_type='event-based', self_steps=None,
             silent=False, delay=0.0):
        self.meta['type'] = step_type
        if step_type == 'hybrid':
            self.meta['models']['M']['trigger'] = ['val_in']
            self.meta['models']['M']['non-persistent'] = ['val_out']
        self.self_steps = {int(k): v for k, v in (self_steps or {}).items()}
        self.silent = silent
        self.delay = delay
        return self.meta

    def create(self, num, model):
        return [{'eid': 'e', 'type': model}]

    def step(self, time, inputs, max_advance):
        self.time = time
        if self.delay:
            yield asyncio.sleep(self.delay)
        return self.self_steps.get(time)

    def get_data(self, outputs):
        return {} if self.silent else {'e': {'val_out': self.time}}


def hang():
    print('BASELINE DEADLOCK: world.run() did not return within 5 s')
    sys.stdout.flush()
    os._exit(1)


watchdog = threading.Timer(5, hang)
watchdog.daemon = True
watchdog.start()
world = mosaik.World({'Sim': {'python': '__main__:Sim'}}, skip_greetings=True)
a1 = world.start('Sim', sim_id='A1').M()
world.set_initial_event('A1', 8)
a2 = world.start(
    'Sim', sim_id='A2', step_type='hybrid', silent=True, delay=0.05, self_steps={0: 9}
).M()
b = world.start('Sim', sim_id='B').M()
world.connect(a1, b, ('val_out', 'val_in'), time_shifted=5)
world.connect(a2, b, ('val_out', 'val_in'))
world.run(until=10, print_progress=False)
watchdog.cancel()
print('no deadlock')
