import random
from mosaik import util
class W:
    def __init__(self): self.calls=[]
    def connect(self, s, d, *a, **k): self.calls.append((s,d))
for n_src, n_dest, mc in [(2,1,2),(4,2,2),(3,2,2),(6,3,2)]:
    fails = 0
    for seed in range(200):
        random.seed(seed); w = W()
        try:
            r = util.connect_randomly(w, list(range(n_src)), [f"d{i}" for i in range(n_dest)], 'a', evenly=False, max_connects=mc)
        except AssertionError as e:
            fails += 1
    print(n_src, n_dest, mc, "assertion failures:", fails, "/200")
