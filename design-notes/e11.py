# D16: acyclic scenario with a path leaving and re-entering a group + weak hop -> incomparable delays
import sys; sys.path.insert(0, '/tmp/exp')
import mosaik, asim
from loguru import logger; logger.remove()
w = mosaik.World({'S': {'python': 'asim:ASim'}}, skip_greetings=True)
with w.group():
    a = w.start('S', sim_id='A', step_type='event-based').A()
    b = w.start('S', sim_id='B', step_type='event-based').A()
    d = w.start('S', sim_id='D', step_type='event-based').A()
c = w.start('S', sim_id='C', step_type='event-based').A()
order = sys.argv[1]
def direct(): w.connect(a, b, ('val_out', 'val_in'))
def detour():
    w.connect(a, c, ('val_out', 'val_in'))
    w.connect(c, d, ('val_out', 'val_in'))
    w.connect(d, b, ('val_out', 'trigger_in'), weak=True)
if order == 'direct-first': direct(); detour()
else: detour(); direct()
w.set_initial_event('A', 0)
try:
    w.run(until=2, print_progress=False)
    print("run returned", [l[:3] for l in asim.LOG if l[0]=='begin'])
except BaseException as ex:
    print("EXC", type(ex).__name__, str(ex)[:200])
