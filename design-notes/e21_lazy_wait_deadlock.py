"""Candidate D27 (reported by the round-4 C05 seeding sub-agent on the unchanged tree): an accepted scenario
that deadlocks with lazy_stepping=True (the default) and completes with lazy_stepping=False."""
import asyncio, signal, sys, os
import mosaik, mosaik_api_v3

class Ev(mosaik_api_v3.Simulator):
    META = {"api_version": "3.0", "type": "event-based", "models": {"M": {"public": True, "params": [], "attrs": ["a", "b", "c"], "trigger": ["a", "b", "c"], "non-persistent": ["a", "b", "c"]}}}
    def __init__(self):
        super().__init__(self.META); self.n = 0; self.t = None
    def init(self, sid, time_resolution=1.0, rounds=0):
        self.rounds = rounds; return self.meta
    def create(self, num, model):
        return [{"eid": "e", "type": model}]
    def step(self, time, inputs, max_advance):
        self.n = self.n + 1 if self.t == time else 1
        self.t = time
        return None
    def get_data(self, outputs):
        if self.rounds and self.n > self.rounds:
            return {}
        return {"e": {a: self.n for a in outputs["e"]}}

def run(lazy):
    world = mosaik.World({"Ev": {"python": f"{__name__}:Ev"}})
    with world.group():
        S = world.start("Ev", rounds=2).M()
        R = world.start("Ev", rounds=1).M()
        D = world.start("Ev").M()
    X = world.start("Ev").M()
    world.connect(S, R, ("a", "a"))
    world.connect(R, S, ("a", "a"), weak=True)
    world.connect(S, D, ("b", "a"))
    world.connect(S, X, ("c", "a"))
    world.connect(X, D, ("a", "b"))
    world.set_initial_event(S._sid if hasattr(S, "_sid") else S.sid, 0)
    world.run(until=2, print_progress=False, lazy_stepping=lazy)

if __name__ == "__main__":
    def alarm(*a):
        print("DEADLOCK (run() did not return within 8 s)"); os._exit(1)
    signal.signal(signal.SIGALRM, alarm)
    for lazy in (False, True):
        signal.alarm(8)
        try:
            run(lazy); print("lazy_stepping", lazy, "completed")
        except Exception as ex:
            print("lazy_stepping", lazy, type(ex).__name__, ex)
        signal.alarm(0)
