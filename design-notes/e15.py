import sys, os, time; sys.path.insert(0, '/tmp/exp')
import mosaik
from loguru import logger; logger.remove()
cfg = {'R': {'cmd': '%(python)s /tmp/exp/rsim2.py %(addr)s'}}
w = mosaik.World(cfg, skip_greetings=True)
x = w.start('R', sim_id='X', bogus_at=1).A()
y = w.start('R', sim_id='Y').A()
t0=time.time()
try:
    w.run(until=3, print_progress=False)
    print("run returned")
except BaseException as ex:
    print("EXC", type(ex).__name__, str(ex)[:200])
print("elapsed", round(time.time()-t0,2), "loop closed:", w.loop.is_closed())
