# local sim raising in step while others are in flight / waiting: pending tasks left behind?
import sys, gc, warnings; sys.path.insert(0, '/tmp/exp')
import mosaik, asim
from loguru import logger; logger.remove()
class Boom(asim.ASim):
    def step(self, time, inputs, max_advance):
        if time >= 1: raise ValueError("boom")
        return time + 1
asim.Boom = Boom
w = mosaik.World({'S': {'python': 'asim:ASim'}, 'B': {'python': 'asim:Boom'}}, skip_greetings=True)
a = w.start('S', sim_id='A', step_type='time-based', delay=0.01).A()
b = w.start('B', sim_id='B').A()
c = w.start('S', sim_id='C', step_type='event-based').A()
w.connect(a, c, ('val_out', 'val_in'))
try:
    w.run(until=5, print_progress=False)
    print("run returned")
except BaseException as ex:
    print("EXC", type(ex).__name__, ex)
gc.collect()
print("closed", w.loop.is_closed())
