"""Async-capable generic test sim: step is a generator that yields asyncio.sleep so
that steps are genuinely in flight concurrently (like remote simulators)."""
import asyncio, copy
import mosaik_api_v3

META = {
    'api_version': '3.0', 'type': 'time-based',
    'models': {'A': {'public': True, 'params': [], 'attrs': ['val_in', 'trigger_in', 'val_out']}},
}
LOG = []

class ASim(mosaik_api_v3.Simulator):
    def __init__(self):
        super().__init__(copy.deepcopy(META))
    def init(self, sid, time_resolution, step_type='time-based', step_size=1, self_steps=None,
             delay=0.0, output_timing=None, trigger=None, outputs=True):
        self.sid = sid; self.step_type = step_type; self.meta['type'] = step_type
        self.step_size = step_size; self.self_steps = self_steps or {}
        self.delay = delay; self.output_timing = output_timing; self.outputs = outputs
        if trigger is not None: self.meta['models']['A']['trigger'] = trigger
        if step_type == 'hybrid': self.meta['models']['A']['non-persistent'] = []
        self.entities = []
        return self.meta
    def create(self, num, model):
        n = len(self.entities); new = [str(i) for i in range(n, n+num)]; self.entities += new
        return [{'eid': e, 'type': model} for e in new]
    def step(self, time, inputs, max_advance):
        LOG.append(('begin', self.sid, time, copy.deepcopy(inputs), max_advance))
        d = self.delay[time] if isinstance(self.delay, dict) else self.delay
        if d is None: d = 0
        if d:
            yield asyncio.sleep(d)
        LOG.append(('end', self.sid, time))
        self.time = time
        if self.step_type == 'time-based':
            return time + self.step_size
        return self.self_steps.get(time)
    def get_data(self, outputs):
        if self.output_timing is None:
            return {e: {'val_out': self.time} for e in self.entities}
        ot = self.output_timing.get(self.time)
        if ot is None: return {}
        return {'time': ot, **{e: {'val_out': self.time} for e in self.entities}}
