from mosaik.tiered_time import TieredInterval as TI, TieredTime as TT
a, b = TI(2,0), TI(1,5)
print("a<b", a<b, "b<a", b<a, "a>b", a>b, "a<=b", a<=b, "min", min(a,b), min(b,a))
from mosaik.scenario import SimGroup, group_path, connect_interval
main = SimGroup(None); g1 = SimGroup(main); g2 = SimGroup(main)
print("g1==g2", g1==g2, "g1 is g2", g1 is g2)
print("group_path siblings", group_path(g1, g2)[:2])
try:
    print("weak between siblings:", connect_interval(g1, g2, 0, 1))
except Exception as e:
    print("rejected", type(e).__name__)
