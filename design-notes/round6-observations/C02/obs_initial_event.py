"""Reproducer for OBSERVATIONS.md (unmodified tree)."""
import mosaik
import mosaik_api_v3

LOG = {}


class S(mosaik_api_v3.Simulator):
    def __init__(self):
        super().__init__({
            "api_version": "3.0", "type": "hybrid",
            "models": {"M": {"public": True, "params": [], "attrs": ["a"]}},
        })

    def init(self, sid, time_resolution, step_type="hybrid"):
        self.sid = sid
        self.meta["type"] = step_type
        LOG[sid] = []
        return self.meta

    def create(self, num, model):
        return [{"eid": "e", "type": model}]

    def step(self, time, inputs, max_advance):
        LOG[self.sid].append(time)
        return None if self.meta["type"] == "event-based" else time + 4

    def get_data(self, outputs):
        return {}


world = mosaik.World({"S": {"python": "__main__:S"}}, skip_greetings=True)
world.start("S", sim_id="H", step_type="hybrid").M()
world.start("S", sim_id="E", step_type="event-based").M()
world.set_initial_event("H", 2)   # hybrid: step at 0 is demanded anyway
world.set_initial_event("E", 1)
world.set_initial_event("E", 3)   # two initial events for E
world.run(until=10, print_progress=False)
print(LOG)
# Expected by the statement of C02: H at 0 (hybrid) and 2 (initial event), then
# their self-steps 4, 6, 8; E at 1 and 3.
print("H ok:", LOG["H"][:2] == [0, 2], " E ok:", LOG["E"] == [1, 3])
