import asyncio, copy, sys, warnings
import mosaik, mosaik_api_v3
from loguru import logger
logger.remove()
warnings.simplefilter('ignore')
SEEN = []
META = {'api_version': '3.0', 'type': 'time-based',
        'models': {'M': {'public': True, 'params': [], 'attrs': ['val', 'inp']}}}

class Prod(mosaik_api_v3.Simulator):
    def __init__(self): super().__init__(copy.deepcopy(META))
    def init(self, sid, time_resolution): return self.meta
    def create(self, num, model): return [{'eid': 'e', 'type': model}]
    def step(self, time, inputs, max_advance):
        self.time = time
        return time + 1
    def get_data(self, outputs): return {'e': {'val': 1000 + self.time}}

class Agent(mosaik_api_v3.Simulator):
    def __init__(self): super().__init__(copy.deepcopy(META))
    def init(self, sid, time_resolution): return self.meta
    def create(self, num, model): return [{'eid': 'e', 'type': model}]
    def step(self, time, inputs, max_advance):
        data = yield self.mosaik.get_data({'A.e': ['val']})
        SEEN.append((time, copy.deepcopy(inputs), data))
        return time + 1
    def get_data(self, outputs): return {}

def run(cache):
    SEEN.clear()
    w = mosaik.World({'P': {'python': '__main__:Prod'}, 'G': {'python': '__main__:Agent'}}, cache=cache, skip_greetings=True)
    a = w.start('P', sim_id='A').M()
    g = w.start('G', sim_id='G').M()
    w.connect(a, g, ('val', 'inp'), async_requests=True)
    w.run(until=3, print_progress=False)
    return list(SEEN)

r1 = run(True); r2 = run(False)
print('cache on :', r1)
print('cache off:', r2)
sys.exit(0 if r1 == r2 else 1)
