"""Unmodified tree: the timed input buffer and the output cache are indexed by
the integer time only, not by the tiered time.  A time-based simulator C in
the same group as a same-time loop A <-> B, which reads A's (non-persistent)
loop output, should see the output of A's first sub-step (it steps at tier
0:0).  It does so with lazy_stepping=True, because A waits for C.  With
lazy_stepping=False and a second, slow predecessor S of C, the loop finishes
before C collects its inputs and C sees the output of A's *last* sub-step.

Exits 1 if the runs differ (they do on the unmodified tree)."""
import asyncio, copy, sys
import mosaik, mosaik_api_v3
from loguru import logger
logger.remove()
TRACES = {}


class Sim(mosaik_api_v3.Simulator):
    def __init__(self):
        super().__init__({'api_version': '3.0', 'type': 'time-based', 'models': {
            'M': {'public': True, 'params': [], 'attrs': ['val', 'inp', 'trig']}}})

    def init(self, sid, time_resolution, kind='time', latency=0, loop_len=3):
        self.meta = copy.deepcopy(self.meta)
        self.kind, self.latency, self.loop_len = kind, latency, loop_len
        if kind == 'loop':
            self.meta['type'] = 'hybrid'
            self.meta['models']['M']['trigger'] = ['trig']
            self.meta['models']['M']['non-persistent'] = ['val']
        elif kind == 'echo':
            self.meta['type'] = 'event-based'
        self.trace = TRACES.setdefault(sid, [])
        self.last_time, self.sub = None, 0
        return self.meta

    def create(self, num, model):
        return [{'eid': 'e', 'type': model}]

    def step(self, time, inputs, max_advance):
        self.sub = self.sub + 1 if time == self.last_time else 1
        self.last_time = self.time = time
        self.trace.append((time, copy.deepcopy(inputs)))
        for _ in range(self.latency):
            yield asyncio.sleep(0)
        if self.kind == 'time':
            return time + 1
        if self.kind == 'loop' and self.sub == 1:
            return time + 1
        return None

    def get_data(self, outputs):
        if self.kind != 'time' and self.sub > self.loop_len:
            return {}
        return {'e': {'val': 100 * self.time + self.sub}}


def run(lazy, s_latency):
    TRACES.clear()
    w = mosaik.World({'Sim': {'python': '__main__:Sim'}}, skip_greetings=True)
    with w.group():
        a = w.start('Sim', sim_id='A', kind='loop').M()
        b = w.start('Sim', sim_id='B', kind='echo').M()
        c = w.start('Sim', sim_id='C', kind='time').M()
    s = w.start('Sim', sim_id='S', kind='time', latency=s_latency).M()
    w.connect(a, b, ('val', 'trig'))
    w.connect(b, a, ('val', 'trig'), weak=True)
    w.connect(a, c, ('val', 'inp'))
    w.connect(s, c, ('val', 'trig'))
    w.run(until=2, print_progress=False, lazy_stepping=lazy)
    return copy.deepcopy(TRACES['C'])


ref = run(True, 0)
bad = 0
for lazy in (True, False):
    for s_latency in (0, 100):
        t = run(lazy, s_latency)
        print('lazy', lazy, 'latency of S', s_latency, t)
        bad += t != ref
sys.exit(1 if bad else 0)
