"""
Observation 1 (UNMODIFIED tree): run() hangs in shutdown when a simulator
fails while a remote simulator has a request in flight that it answers
shortly afterwards.

Run: cd /tmp/seed6/C14 && PYTHONPATH=/tmp/seed6/C14 /venv/bin/python _seed/observations/obs1_late_reply_hang.py
Exit code 0: run() terminated; exit code 2: hang (watchdog after 15 s).
"""
import faulthandler, os, shlex, sys, threading, time
import mosaik_api_v3

META = {"api_version": "3.0", "type": "time-based",
        "models": {"M": {"public": True, "params": [], "attrs": ["a"]}}}


class Remote(mosaik_api_v3.Simulator):
    """Healthy remote simulator, every step takes 20 ms."""
    def __init__(self):
        super().__init__(dict(META))
    def init(self, sid, time_resolution=1.0):
        return self.meta
    def create(self, num, model):
        return [{"eid": "e", "type": model}]
    def step(self, t, inputs, max_advance):
        time.sleep(0.02)
        return t + 1
    def get_data(self, outputs):
        return {}


class Faulty(Remote):
    """In-process simulator that raises in its second step."""
    n = 0
    def step(self, t, inputs, max_advance):
        self.n += 1
        if self.n == 2:
            raise RuntimeError("boom")
        return t + 1


if __name__ == "__main__":
    if sys.argv[1:2] == ["--remote-sim"]:
        sys.argv = [sys.argv[0], sys.argv[2]]
        mosaik_api_v3.start_simulation(Remote())
        sys.exit(0)

    import mosaik

    def watchdog():
        print("HANG: run() did not terminate within 15 s", flush=True)
        faulthandler.dump_traceback()
        os._exit(2)
    threading.Timer(15, watchdog).start()

    world = mosaik.World({
        "Faulty": {"python": "__main__:Faulty"},
        "Remote": {"cmd": "%(python)s " + shlex.quote(os.path.abspath(__file__))
                   + " --remote-sim %(addr)s"},
    }, skip_greetings=True)
    world.start("Faulty").M()
    world.start("Remote").M()
    t0 = time.time()
    try:
        world.run(until=5, print_progress=False)
    except Exception as e:
        print("run() raised", repr(e), "after %.2fs" % (time.time() - t0))
    os._exit(0)
