"""
Observation 2 (UNMODIFIED tree): run() hangs if a remote simulator process
dies BETWEEN two requests (e.g. while it waits for its predecessor).

Run: cd /tmp/seed6/C14 && PYTHONPATH=/tmp/seed6/C14 /venv/bin/python _seed/observations/obs2_dies_between_requests_hang.py
Exit code 0: run() terminated; exit code 2: hang (watchdog after 15 s).
"""
import faulthandler, os, shlex, sys, threading, time
import mosaik_api_v3

META = {"api_version": "3.0", "type": "time-based",
        "models": {"M": {"public": True, "params": [], "attrs": ["a"]}}}


class Sim(mosaik_api_v3.Simulator):
    def __init__(self, role):
        super().__init__(dict(META))
        self.role = role
    def init(self, sid, time_resolution=1.0):
        return self.meta
    def create(self, num, model):
        return [{"eid": "e", "type": model}]
    def step(self, t, inputs, max_advance):
        if self.role == "slow":
            time.sleep(1.0)
        elif t == 0:
            # the process dies 0.3 s after its first step has been answered,
            # i.e. while it is idle, waiting for the slow predecessor
            threading.Timer(0.3, lambda: os._exit(4)).start()
        return t + 1
    def get_data(self, outputs):
        return {"e": {"a": 1}}


if __name__ == "__main__":
    if sys.argv[1:2] == ["--remote-sim"]:
        role = sys.argv[2]
        sys.argv = [sys.argv[0], sys.argv[3]]
        mosaik_api_v3.start_simulation(Sim(role))
        sys.exit(0)

    import mosaik

    def watchdog():
        print("HANG: run() did not terminate within 15 s", flush=True)
        faulthandler.dump_traceback()
        os._exit(2)
    threading.Timer(15, watchdog).start()

    def cmd(role):
        return {"cmd": "%(python)s " + shlex.quote(os.path.abspath(__file__))
                + " --remote-sim " + role + " %(addr)s"}
    world = mosaik.World({"Slow": cmd("slow"), "Dying": cmd("dying")},
                         skip_greetings=True)
    a = world.start("Slow").M()
    b = world.start("Dying").M()
    world.connect(a, b, "a")
    t0 = time.time()
    try:
        world.run(until=3, print_progress=False)
    except Exception as e:
        print("run() raised", repr(e), "after %.2fs" % (time.time() - t0))
    os._exit(0)
