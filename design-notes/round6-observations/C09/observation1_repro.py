"""
Reproducer for OBSERVATIONS.md, observation 1 (UNMODIFIED tree):
sub-tier counters survive a time-shifted connection inside a group, so a
weak loop that settles after 3 sub-steps in every time step trips the
max_loop_iterations=5 guard at time 2.

Run: cd /tmp/seed6/C09 && PYTHONPATH=/tmp/seed6/C09 /venv/bin/python _seed/observation1_repro.py
Prints the spurious SimulationError ("... The complete now is 2:5 ...").
"""
import sys, collections
import mosaik, mosaik_api_v3
from mosaik.exceptions import SimulationError
from loguru import logger
logger.remove()

META = {'type': 'event-based', 'models': {'A': {'public': True, 'params': [], 'attrs': ['loop_in', 'loop_out', 'next_in', 'next_out']}}}

class Ctrl(mosaik_api_v3.Simulator):
    """A: starts loop; keeps it for L rounds."""
    def __init__(self):
        super().__init__(META); self.steps = []
    def init(self, sid, time_resolution, loop_length=2):
        self.L = loop_length; self.count = 0; return self.meta
    def create(self, num, model):
        return [{'eid': 'C', 'type': model}]
    def step(self, time, inputs, max_advance):
        self.steps.append(time)
        self.count += 1
        return None
    def get_data(self, outputs):
        if self.count <= self.L:
            return {'C': {'loop_out': self.count}}
        self.count = 0
        return {'C': {'next_out': 1}}

class Plant(mosaik_api_v3.Simulator):
    def __init__(self):
        super().__init__(META); self.steps = []
    def init(self, sid, time_resolution):
        return self.meta
    def create(self, num, model):
        return [{'eid': 'P', 'type': model}]
    def step(self, time, inputs, max_advance):
        self.steps.append(time)
        self.inp = inputs['P']
    def get_data(self, outputs):
        if 'loop_in' in self.inp:
            return {'P': {'loop_out': 1}}
        return {'P': {'next_out': 1}}

def run(N, L, until):
    world = mosaik.World({'Ctrl': {'python': '__main__:Ctrl'}, 'Plant': {'python': '__main__:Plant'}}, max_loop_iterations=N, skip_greetings=True)
    with world.group():
        a = world.start('Ctrl', sim_id='Ctrl', loop_length=L).A()
        b = world.start('Plant', sim_id='Plant').A()
    world.set_initial_event(a.sid)
    world.connect(a, b, ('loop_out', 'loop_in'), ('next_out', 'next_in'))
    world.connect(b, a, ('loop_out', 'loop_in'), weak=True)
    world.connect(b, a, ('next_out', 'next_in'), time_shifted=True)
    try:
        world.run(until=until, print_progress=False)
        return None
    except SimulationError as e:
        return str(e)

print(run(5, 2, 10))
