"""Reproducer for OBSERVATIONS.md (unmodified tree).

cd /tmp/seed6/C05 && PYTHONPATH=/tmp/seed6/C05 /venv/bin/python _seed/obs_incomparable.py
-> AssertionError: 0:0|(2) and 0|1(2) are incomparable   (exit 1)
"""
import sys
import traceback

import mosaik
import mosaik_api_v3


class Ev(mosaik_api_v3.Simulator):
    def __init__(self):
        super().__init__({
            "api_version": "3.0",
            "type": "event-based",
            "models": {"M": {"public": True, "params": [], "attrs": ["out", "in1", "in2"]}},
        })

    def init(self, sid, time_resolution=1.0):
        return self.meta

    def create(self, num, model, **kw):
        return [{"eid": "e", "type": model}]

    def step(self, time, inputs, max_advance):
        self.time = time
        return None

    def get_data(self, outputs):
        return {"e": {"out": self.time}}


world = mosaik.World({"Ev": {"python": "__main__:Ev"}}, skip_greetings=True)
with world.group():
    a = world.start("Ev", sim_id="A").M()
    b = world.start("Ev", sim_id="B").M()
    c = world.start("Ev", sim_id="C").M()
x = world.start("Ev", sim_id="X").M()  # main group
world.set_initial_event("A", 0)
# No cycle at all:  A -> X -> B -(weak)-> C   and   A -> C
world.connect(a, x, ("out", "in1"))            # leaves the group
world.connect(x, b, ("out", "in1"))            # re-enters the group
world.connect(b, c, ("out", "in1"), weak=True)
world.connect(a, c, ("out", "in2"))
try:
    world.run(until=2, print_progress=False)
except BaseException as e:  # noqa: BLE001
    traceback.print_exc()
    print("FAIL:", type(e).__name__, e)
    sys.exit(1)
print("OK")
