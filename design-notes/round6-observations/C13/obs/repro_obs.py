"""Reproducer for OBSERVATIONS.md (unmodified tree)."""
import sys
import mosaik, mosaik_api_v3


class Src(mosaik_api_v3.Simulator):
    def __init__(self):
        super().__init__({"api_version": "3.0", "type": "hybrid",
                          "models": {"S": {"public": True, "params": [], "attrs": ["val"]}}})
        self.calls = []
    def init(self, sid, time_resolution=1.0, mode="bool"):
        self.mode = mode
        return self.meta
    def create(self, num, model, **p):
        return [{"eid": "s0", "type": model}]
    def step(self, time, inputs, max_advance):
        self.calls.append(time)
        if self.mode == "bool" and time == 0:
            return True          # bool is an int subclass -> accepted as 1
        return time + 1
    def get_data(self, outputs):
        d = {"s0": {"val": self.calls[-1]}}
        if self.mode == "floattime" and self.calls[-1] == 2:
            d["time"] = 2.5      # not an int, but >= step time -> accepted
        return d


class Snk(mosaik_api_v3.Simulator):
    def __init__(self):
        super().__init__({"api_version": "3.0", "type": "event-based",
                          "models": {"K": {"public": True, "params": [], "attrs": ["val"]}}})
        self.calls = []
    def init(self, sid, time_resolution=1.0):
        return self.meta
    def create(self, num, model, **p):
        return [{"eid": "k0", "type": model}]
    def step(self, time, inputs, max_advance):
        self.calls.append(time)
    def get_data(self, outputs):
        return {}


for mode in ["bool", "floattime"]:
    w = mosaik.World({"Src": {"python": "__main__:Src"}, "Snk": {"python": "__main__:Snk"}}, skip_greetings=True)
    s = w.start("Src", mode=mode).S()
    k = w.start("Snk").K()
    w.connect(s, k, "val")
    snk = w.sims["Snk-0"]._proxy.sim
    err = None
    try:
        w.run(until=5, print_progress=False)
    except BaseException as e:
        err = e
    print(mode, "-> error:", repr(err), "| sink step times:", snk.calls)
