"""Observation 2: a non-persistent (event) output connected time-shifted into a
non-trigger input needs initial_data (connect() insists on it); the initial data
is stored in persistent_inputs, which makes that source key part of the
persistent memory, so later event values are repeated at every following step
(with cache on and off)."""
import sys
import mosaik, mosaik_api_v3

SEEN = []

class Ev(mosaik_api_v3.Simulator):
    def __init__(self):
        super().__init__({"api_version": "3.0", "type": "event-based",
            "models": {"E": {"public": True, "params": [], "attrs": ["ev"]}}})
    def init(self, sid, time_resolution):
        return self.meta
    def create(self, num, model):
        return [{"eid": "e", "type": model}]
    def step(self, time, inputs, max_advance):
        self.time = time
        return None
    def get_data(self, outputs):
        return {"e": {"ev": f"E@{self.time}"}}

class Cons(mosaik_api_v3.Simulator):
    def __init__(self):
        super().__init__({"api_version": "3.0", "type": "time-based",
            "models": {"C": {"public": True, "params": [], "attrs": ["in"]}}})
    def init(self, sid, time_resolution):
        return self.meta
    def create(self, num, model):
        return [{"eid": "c", "type": model}]
    def step(self, time, inputs, max_advance):
        SEEN.append((time, inputs.get("c", {}).get("in")))
        return time + 1
    def get_data(self, outputs):
        return {}

cache = not (len(sys.argv) > 1 and sys.argv[1] == "nocache")
world = mosaik.World({"Ev": {"python": "__main__:Ev"}, "Cons": {"python": "__main__:Cons"}},
                     skip_greetings=True, cache=cache)
e = world.start("Ev", sim_id="E").E()
c = world.start("Cons", sim_id="C").C()
world.connect(e, c, ("ev", "in"), time_shifted=True, initial_data={"ev": "init"})
world.set_initial_event("E", time=1)
world.run(until=6, print_progress=False)
print(SEEN)
# the single event E@1 is due at C's step 2 and must be delivered exactly once
assert [t for t, v in SEEN if v and v.get("E.e") == "E@1"] == [2], SEEN
