"""Observation 1: two time-shifted connections from the same persistent output
to two consumers with *different* initial data, cache=True: the initial data is
stored per source port in the producer's output cache, so the later connect()
overwrites the earlier one's initial data."""
import sys
import mosaik, mosaik_api_v3

SEEN = {}

class Sim(mosaik_api_v3.Simulator):
    def __init__(self):
        super().__init__({"api_version": "3.0", "type": "time-based",
            "models": {"M": {"public": True, "params": [], "attrs": ["val", "in"]}}})
    def init(self, sid, time_resolution):
        self.sid = sid
        return self.meta
    def create(self, num, model):
        return [{"eid": "e", "type": model}]
    def step(self, time, inputs, max_advance):
        self.time = time
        SEEN.setdefault(self.sid, []).append((time, inputs.get("e", {}).get("in")))
        return time + 1
    def get_data(self, outputs):
        return {"e": {"val": f"{self.sid}@{self.time}"}}

cache = sys.argv[1] != "nocache" if len(sys.argv) > 1 else True
world = mosaik.World({"Sim": {"python": "__main__:Sim"}}, skip_greetings=True, cache=cache)
p = world.start("Sim", sim_id="P").M()
c1 = world.start("Sim", sim_id="C1").M()
c2 = world.start("Sim", sim_id="C2").M()
world.connect(p, c1, ("val", "in"), time_shifted=True, initial_data={"val": "init-for-C1"})
world.connect(p, c2, ("val", "in"), time_shifted=True, initial_data={"val": "init-for-C2"})
world.run(until=2, print_progress=False)
print(SEEN)
assert SEEN["C1"][0] == (0, {"P.e": "init-for-C1"}), SEEN["C1"]
assert SEEN["C2"][0] == (0, {"P.e": "init-for-C2"}), SEEN["C2"]
