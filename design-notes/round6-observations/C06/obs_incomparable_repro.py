"""Reproducer for the observation in OBSERVATIONS.md (unmodified tree).

Acyclic scenario:  t, s, u in one group G;  c outside (top level).
    t -> c, c -> s   (plain, path leaves G and re-enters it)
    s -> u           (weak, inside G)
    t -> u           (plain, inside G)
There is no directed cycle at all, so World.run() must accept the scenario.
Instead ensure_no_dataflow_cycles() dies with
    AssertionError: 0:0|(2) and 0|1(2) are incomparable
because the two t ~> u paths have delays (0,0) cutoff 2 and (0,1) cutoff 1,
which TieredInterval.__lt__ refuses to order (update_min -> `a <= b`).
Run: cd /tmp/seed6/C06 && PYTHONPATH=/tmp/seed6/C06 /venv/bin/python _seed/obs_incomparable_repro.py
Exits 1 if the crash is reproduced, 0 if the scenario is accepted.
"""
import sys
import warnings

import mosaik_api_v3
from loguru import logger

logger.remove()
warnings.simplefilter("ignore")
import mosaik


class Sim(mosaik_api_v3.Simulator):
    def __init__(self):
        super().__init__({
            "api_version": "3.0",
            "type": "time-based",
            "models": {"M": {"public": True, "params": [], "attrs": ["x"]}},
        })

    def init(self, sid, time_resolution=1.0, **kw):
        return self.meta

    def create(self, num, model, **kw):
        return [{"eid": f"e{i}", "type": model} for i in range(num)]

    def step(self, time, inputs, max_advance):
        return time + 1

    def get_data(self, outputs):
        return {e: {a: 0 for a in attrs} for e, attrs in outputs.items()}


world = mosaik.World({"S": {"python": "__main__:Sim"}}, skip_greetings=True)
with world.group():
    t = world.start("S", sim_id="t").M()
    s = world.start("S", sim_id="s").M()
    u = world.start("S", sim_id="u").M()
c = world.start("S", sim_id="c").M()
world.connect(t, c, "x")
world.connect(c, s, "x")
world.connect(s, u, "x", weak=True, initial_data={"x": 0})
world.connect(t, u, "x")
try:
    world.run(until=1, print_progress=False)
except AssertionError as e:
    print("REPRODUCED: acyclic scenario crashes in World.run():", repr(e))
    world.shutdown()
    sys.exit(1)
print("scenario accepted")
