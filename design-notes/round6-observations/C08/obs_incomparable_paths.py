import mosaik, mosaik_api_v3
class Ev(mosaik_api_v3.Simulator):
    META = {"api_version": "3.0", "type": "event-based",
            "models": {"M": {"public": True, "params": [], "attrs": ["val_in", "val_out"]}}}
    def __init__(self): super().__init__(self.META)
    def init(self, sid, time_resolution=1.0): return self.meta
    def create(self, num, model): return [{"eid": "e", "type": model}]
    def step(self, time, inputs, max_advance):
        self.time = time; return None
    def get_data(self, outputs): return {"e": {"val_out": self.time}, "time": self.time}
world = mosaik.World({"Ev": {"python": "__main__:Ev"}})
with world.group():
    a = world.start("Ev", sim_id="A").M()
    b = world.start("Ev", sim_id="B").M()
    d = world.start("Ev", sim_id="D").M()
c = world.start("Ev", sim_id="C").M()
world.connect(a, b, ("val_out", "val_in"))
world.connect(a, c, ("val_out", "val_in"))
world.connect(c, d, ("val_out", "val_in"))
world.connect(d, b, ("val_out", "val_in"), weak=True)
world.set_initial_event("A", 0)
world.run(until=2)
print("ran fine")
