"""Clean tree, real clock: the step for time 0 of an instantly answering
simulator is always reported as too slow (delta = elapsed - rt_factor*0 > 0),
and with rt_strict=True the run aborts with RuntimeError at time 0.
Exits 1 on the unmodified tree."""
import mosaik, mosaik_api_v3
from loguru import logger

WARNINGS = []


class Sim(mosaik_api_v3.Simulator):
    def __init__(self):
        super().__init__({'api_version': '3.0', 'type': 'time-based',
                          'models': {'M': {'public': True, 'params': [], 'attrs': ['a']}}})
    def init(self, sid, time_resolution=1.0):
        return self.meta
    def create(self, num, model):
        return [{'eid': 'e%d' % i, 'type': model} for i in range(num)]
    def step(self, time, inputs, max_advance):
        return time + 1
    def get_data(self, outputs):
        return {}


logger.remove(); logger.add(lambda m: WARNINGS.append(str(m)), level='WARNING', format='{message}')
world = mosaik.World({'S': {'python': '__main__:Sim'}}, skip_greetings=True)
world.start('S', sim_id='A').M()
world.run(until=3, rt_factor=0.2, print_progress=False)
print(WARNINGS)
assert not [w for w in WARNINGS if 'too slow' in w], 'instant simulator reported as too slow'
