"""Clean tree: set_event(t) for a t that already lies in the past (outside the
scope of C17, which only speaks about future t) is neither rejected nor
ignored; the run dies with AssertionError('cannot progress backwards') from
Progress.set (or SimulationError 'has already progressed').
Virtual clock.  Exits 1 on the unmodified tree."""
import asyncio, heapq
import mosaik, mosaik.scheduler as scheduler, mosaik_api_v3
from loguru import logger


class VirtualLoop(asyncio.SelectorEventLoop):
    def __init__(self):
        super().__init__(); self._vt = 0.0
    def time(self):
        return self._vt
    def _run_once(self):
        if not self._ready:
            while self._scheduled and self._scheduled[0]._cancelled:
                heapq.heappop(self._scheduled)._scheduled = False
            if self._scheduled and self._scheduled[0]._when > self._vt:
                self._vt = self._scheduled[0]._when
        super()._run_once()


class Sim(mosaik_api_v3.Simulator):
    def __init__(self):
        super().__init__({'api_version': '3.0', 'type': 'event-based', 'set_events': True,
                          'models': {'M': {'public': True, 'params': [], 'attrs': ['a']}}})
    def init(self, sid, time_resolution=1.0):
        return self.meta
    def create(self, num, model):
        return [{'eid': 'e%d' % i, 'type': model} for i in range(num)]
    def setup_done(self):
        self._t = asyncio.get_event_loop().create_task(self.inject())
    async def inject(self):
        await asyncio.sleep(3.3)          # wall clock is in step 4 now
        await self.mosaik.set_event(2)    # time 2 is long gone
    def step(self, time, inputs, max_advance):
        return None
    def get_data(self, outputs):
        return {}


loop = VirtualLoop(); asyncio.set_event_loop(loop); scheduler.perf_counter = loop.time
logger.remove()
world = mosaik.World({'S': {'python': '__main__:Sim'}}, asyncio_loop=loop, skip_greetings=True)
world.start('S', sim_id='A').M()
world.run(until=8, rt_factor=1.0, print_progress=False)
print('completed')
