"""Clean tree: an instantly answering consumer B of A (A -> B, both time-based,
step size 1) is reported as too slow at every step in real-time mode.
Virtual clock, exact.  Exits 1 (assertion) on the unmodified tree."""
import asyncio, heapq
import mosaik, mosaik.scheduler as scheduler, mosaik_api_v3
from loguru import logger


class VirtualLoop(asyncio.SelectorEventLoop):
    def __init__(self):
        super().__init__(); self._vt = 0.0
    def time(self):
        return self._vt
    def _run_once(self):
        if not self._ready:
            while self._scheduled and self._scheduled[0]._cancelled:
                heapq.heappop(self._scheduled)._scheduled = False
            if self._scheduled and self._scheduled[0]._when > self._vt:
                self._vt = self._scheduled[0]._when
        super()._run_once()


STEPS, WARNINGS = [], []


class Sim(mosaik_api_v3.Simulator):
    def __init__(self):
        super().__init__({'api_version': '3.0', 'type': 'time-based',
                          'models': {'M': {'public': True, 'params': [], 'attrs': ['a', 'b']}}})
    def init(self, sid, time_resolution=1.0):
        self.sid = sid; return self.meta
    def create(self, num, model):
        return [{'eid': 'e%d' % i, 'type': model} for i in range(num)]
    def step(self, time, inputs, max_advance):
        STEPS.append((self.sid, time, asyncio.get_event_loop().time())); self.time = time
        return time + 1
    def get_data(self, outputs):
        return {eid: {a: self.time for a in attrs} for eid, attrs in outputs.items()}


loop = VirtualLoop(); asyncio.set_event_loop(loop); scheduler.perf_counter = loop.time
logger.remove(); logger.add(lambda m: WARNINGS.append(str(m)), level='WARNING', format='{message}')
world = mosaik.World({'S': {'python': '__main__:Sim'}}, asyncio_loop=loop, skip_greetings=True)
a = world.start('S', sim_id='A').M(); b = world.start('S', sim_id='B').M()
world.connect(a, b, ('a', 'b'))
world.run(until=4, rt_factor=0.5, print_progress=False)
print(STEPS); print(WARNINGS)
assert not [w for w in WARNINGS if 'too slow' in w], 'instant simulators reported as too slow'
