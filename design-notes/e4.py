# D4: two trigger connections A->B with different delays (time-shifted registered last)
import sys; sys.path.insert(0, '/tmp/exp')
import mosaik, asim
from loguru import logger; logger.remove()
order = sys.argv[1]
w = mosaik.World({'S': {'python': 'asim:ASim'}}, skip_greetings=True)
a = w.start('S', sim_id='A', step_type='event-based', self_steps={0: 1, 1: 2, 2: 3}).A()
b = w.start('S', sim_id='B', step_type='event-based').A()
def plain(): w.connect(a, b, ('val_out', 'val_in'))
def shifted(): w.connect(a, b, ('val_out', 'trigger_in'), time_shifted=True)
if order == 'plain-last': shifted(); plain()
else: plain(); shifted()
w.set_initial_event('A', 0)
try:
    w.run(until=4, print_progress=False)
    print("run returned; trig anc of B:", w.sims['B'].triggering_ancestors)
except BaseException as e:
    print("EXC", type(e).__name__, e, w.sims['B'].triggering_ancestors)
for l in asim.LOG: print(l[:3])
