# Weak connection into a non-trigger input: data of the SAME time is delivered or not depending on
# which simulator happens to finish first (sub-time of the weak delay is dropped: cache/buffer keyed by int time).
import sys; sys.path.insert(0, '/tmp/exp')
import mosaik, asim
from loguru import logger; logger.remove()
def run(cache, delays):
    asim.LOG.clear()
    w = mosaik.World({'S': {'python': 'asim:ASim'}}, skip_greetings=True, cache=cache)
    with w.group():
        s0 = w.start('S', sim_id='S0', step_type='time-based', step_size=1, delay=delays.get('S0', 0)).A()
        s1 = w.start('S', sim_id='S1', step_type='time-based', step_size=3, delay=delays.get('S1', 0)).A()
    w.connect(s1, s0, ('val_out', 'val_in'), time_shifted=True, initial_data={'val_out': -1})
    w.connect(s0, s1, ('val_out', 'val_in'), weak=True, initial_data={'val_out': -1})
    w.run(until=4, print_progress=False)
    return [(l[2], l[3]) for l in asim.LOG if l[0] == 'begin' and l[1] == 'S1']
for cache in (True, False):
    print("cache", cache, "S0 fast :", run(cache, {}))
    print("cache", cache, "S0 slow :", run(cache, {'S0': 0.01}))
