"""D25: TieredInterval.__lt__ orders pairs of different cutoff that are incomparable or ordered
the other way round, and breaks trichotomy when all tiers are equal.

Run: PYTHONPATH=/repo /venv/bin/python e19_lt_mixed_cutoff.py   (exit 1 = defect present)

Between the two cutoffs one delay *adds* to the departure time's tier while the other *replaces*
it.  If the tiers are equal there, the adding delay arrives later whenever that tier of the
departure time is > 0 and at the same tier otherwise, so a later tier must not decide the order
in favour of the adding delay."""
import itertools, sys
from mosaik.tiered_time import TieredInterval, TieredTime

bad = []
# 1. smaller delay arrives later
a = TieredInterval(0, 0, 0, cutoff=2, pre_length=3)
b = TieredInterval(0, 0, 1, cutoff=1, pre_length=3)
t = TieredTime(0, 5, 7)
try:
    if a < b and t + a > t + b:
        bad.append(f"{a!r} < {b!r} but {t!r} + a = {t + a!r} > {t + b!r} = t + b")
except AssertionError:
    pass        # reported incomparable: fine
# 2. trichotomy
a = TieredInterval(0, 0, cutoff=2, pre_length=2)
b = TieredInterval(0, 0, cutoff=1, pre_length=2)
n = sum([a < b, a == b, b < a])
if n != 1:
    bad.append(f"{a!r} vs {b!r}: {n} of (<, ==, >) hold although b never arrives later than a (a > b: {a > b}, b > a: {b > a})")
# 3. exhaustive: every decided pair agrees with the arrival times for all departures (3 tiers, values 0..1)
n_pairs = 0
for ca, cb in itertools.product((1, 2, 3), repeat=2):
    for ta in itertools.product((0, 1), repeat=3):
        for tb in itertools.product((0, 1), repeat=3):
            x = TieredInterval(*ta, cutoff=ca, pre_length=3)
            y = TieredInterval(*tb, cutoff=cb, pre_length=3)
            try:
                lt = x < y
            except AssertionError:
                continue
            n_pairs += 1
            arr = [((TieredTime(*tt) + x), (TieredTime(*tt) + y)) for tt in itertools.product((0, 1, 2), repeat=3)]
            if lt and any(p > q for p, q in arr):
                bad.append(f"{x!r} < {y!r} but arrives later for some departure")
            if not lt and x != y:
                try:
                    gt = y < x
                except AssertionError:
                    gt = None
                if gt is False:
                    bad.append(f"{x!r}, {y!r}: neither <, == nor >")
print(f"{n_pairs} decided pairs checked, {len(bad)} problems")
for l in bad[:8]:
    print("  ", l)
sys.exit(1 if bad else 0)
